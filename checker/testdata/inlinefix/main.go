// Fixture for the self-test of the source-level normalisation (checker/inline.go): every function
// here is "new" (none is in the inventory), so every call in a supported shape is inlined. The
// self-test runs this program as written and as rewritten and compares the output.
package main

import (
	"errors"
	"fmt"
	"os"
	"strings"
)

var trace []string

func note(s string) int { trace = append(trace, s); return len(trace) }

type node struct {
	name string
	kids []*node
	n    int
}

type box struct{ v int }

// value receiver: the callee works on a copy
func (b box) bumped(by int) int { b.v += by; return b.v }

// pointer receiver, statement shape with an early return
func (b *box) add(by int) {
	if by < 0 {
		return
	}
	b.v += by
}

// (value, error) helper with three returns
func lookup(m map[string]int, k string) (int, error) {
	if k == "" {
		return 0, errors.New("empty key")
	}
	v, ok := m[k]
	if !ok {
		return -1, fmt.Errorf("no key %q", k)
	}
	return v, nil
}

// (value, ok) helper
func first(xs []string, pre string) (string, bool) {
	for _, x := range xs {
		if strings.HasPrefix(x, pre) {
			return x, true
		}
	}
	return "", false
}

// boolean helper with short-circuit operators
func wanted(n *node, all bool) bool {
	if n == nil {
		return false
	}
	if all {
		return true
	}
	return n.n > 1 && !strings.HasPrefix(n.name, "_") || n.name == "keep"
}

// helper whose body declares locals named like the caller's targets
func split(s string) (string, string) {
	a, b, ok := strings.Cut(s, "=")
	if !ok {
		return s, ""
	}
	return a, b
}

// helper using an interface parameter and an untyped constant argument
func describe(x fmt.Stringer, width int) string {
	if x == nil {
		return strings.Repeat("-", width)
	}
	return fmt.Sprintf("%*s", width, x.String())
}

type id int

func (i id) String() string { return fmt.Sprintf("#%d", int(i)) }

// named results, bare returns
func bounds(xs []int) (lo, hi int, ok bool) {
	if len(xs) == 0 {
		return
	}
	lo, hi = xs[0], xs[0]
	for _, x := range xs[1:] {
		if x < lo {
			lo = x
		}
		if x > hi {
			hi = x
		}
	}
	ok = true
	return
}

// constant arguments of a non-default type
func scale(x int64, f float32) float32 { return float32(x) * f }

// helper returning a slice, used as a range operand
func names(n *node) []string {
	var out []string
	for _, k := range n.kids {
		out = append(out, k.name)
	}
	return out
}

// nested helpers
func total(n *node) int {
	s := n.n
	for _, k := range n.kids {
		s += weight(k)
	}
	return s
}

func weight(n *node) int {
	if wanted(n, false) {
		return n.n * 2
	}
	return n.n
}

// must NOT be inlined: defer, named results, recursion
func guarded(f func()) (err error) {
	defer func() {
		if r := recover(); r != nil {
			err = fmt.Errorf("recovered: %v", r)
		}
	}()
	f()
	return nil
}

func depth(n *node) int {
	d := 0
	for _, k := range n.kids {
		if kd := depth(k); kd > d {
			d = kd
		}
	}
	return d + 1
}

// message-or-empty helper
func mismatch(a, b string) string {
	if a == b {
		return ""
	}
	return fmt.Sprintf("%s differs from %s", a, b)
}

// call nested in a multi-value return
func weightOrErr(n *node) (int, error) {
	if n == nil {
		return 0, errors.New("nil node")
	}
	return weight(n), nil
}

// tail-call shape
func lookupOrZero(m map[string]int, k string) (int, error) {
	if k == "zero" {
		return 0, nil
	}
	return lookup(m, k)
}

// result-less helpers used in defer and go statements: arguments are evaluated at the statement
func logDone(w *strings.Builder, what string, n int) {
	if n < 0 {
		fmt.Fprintln(w, "done (negative):", what)
		return
	}
	fmt.Fprintln(w, "done:", what, n)
}

func sendSquare(ch chan<- int, n int) {
	if n == 0 {
		ch <- -1
		return
	}
	ch <- n * n
}

// methods of a generic type calling each other: inlined when the receiver's type arguments are the
// caller's own type parameters under the same names; the calls from run (instantiated) stay
type cache[K comparable, V any] struct {
	m    map[K]V
	hits int
}

func (c *cache[K, V]) lookup(k K) (V, bool) {
	v, ok := c.m[k]
	if ok {
		c.hits++
	}
	return v, ok
}

func (c *cache[K, V]) put(k K, v V) {
	if c.m == nil {
		c.m = map[K]V{}
	}
	c.m[k] = v
}

func (c *cache[K, V]) fresh() *cache[K, V] {
	return &cache[K, V]{m: map[K]V{}, hits: c.hits}
}

func (c *cache[K, V]) getOr(k K, mk func() V) V {
	if v, ok := c.lookup(k); ok {
		return v
	}
	v := mk()
	c.put(k, v)
	d := c.fresh()
	d.put(k, v)
	return v
}

// a local built from a literal and returned: known not to be nil
func mkNode(name string, n int) *node {
	nd := &node{name: name, n: n}
	if n < 0 {
		return nil
	}
	nd.n++
	return nd
}

// a helper that defers, called in tail position: its deferred calls run when the caller returns,
// before the caller's own deferred calls
func closing(w *strings.Builder, name string) (string, error) {
	defer fmt.Fprintln(w, "closed", name)
	if name == "" {
		return "", errors.New("no name")
	}
	defer fmt.Fprintln(w, "flushed", name)
	return "<" + name + ">", nil
}

// a result-less helper that defers, called as a statement in the middle of its caller
func guardedNote(w *strings.Builder, b *box, by int) {
	defer fmt.Fprintln(w, "released", b.v)
	if by == 0 {
		return
	}
	b.add(by)
	fmt.Fprintln(w, "held", b.v)
}

// a helper that defers and returns a value computed before its deferred call runs
func countAfter(b *box) int {
	defer b.add(5)
	if b.v < 0 {
		return -1
	}
	return b.v + 1
}

func tail(w *strings.Builder, name string) (string, error) {
	defer fmt.Fprintln(w, "tail done", name)
	fmt.Fprintln(w, "tail start", name)
	if name == "skip" {
		return "skipped", nil
	}
	return closing(w, name)
}

func deferred(w *strings.Builder) {
	n := 1
	defer logDone(w, "first", n)
	n = -2
	defer logDone(w, "second", n)
	n = note("d")
	ch := make(chan int)
	go sendSquare(ch, n%7)
	fmt.Fprintln(w, "square:", <-ch)
	go sendSquare(ch, 0)
	fmt.Fprintln(w, "square:", <-ch)
}

func run(w *strings.Builder) error {
	m := map[string]int{"a": 1, "b": 2}
	tree := &node{name: "root", n: 1, kids: []*node{{name: "keep", n: 1}, {name: "_x", n: 5}, {name: "y", n: 3, kids: []*node{{name: "z", n: 2}}}}}

	// evaluation order of receiver and arguments
	b := box{v: 10}
	fmt.Fprintln(w, b.bumped(note("arg1")), b.v)
	r := b.bumped(note("arg2") + note("arg3"))
	fmt.Fprintln(w, r, b.v, trace)
	bp := &b
	bp.add(5)
	bp.add(-1)
	b.add(note("arg4"))
	fmt.Fprintln(w, b.v)

	// (value, error) followed by a test
	for _, k := range []string{"a", "", "q", "b"} {
		v, err := lookup(m, k)
		if err != nil {
			fmt.Fprintln(w, "err:", err)
			continue
		}
		fmt.Fprintln(w, "val:", v)
	}
	// init form, with else
	for _, k := range []string{"b", "nope", "zero"} {
		if v, err := lookupOrZero(m, k); err == nil {
			fmt.Fprintln(w, "ok", k, v)
		} else {
			fmt.Fprintln(w, "bad", k, err)
		}
	}
	// (value, ok)
	xs := []string{"alpha", "beta", "gamma"}
	for _, pre := range []string{"be", "x"} {
		x, ok := first(xs, pre)
		if !ok {
			fmt.Fprintln(w, "none for", pre)
			break
		}
		fmt.Fprintln(w, "found", x)
	}
	// condition shapes
	for _, k := range tree.kids {
		if !wanted(k, false) {
			fmt.Fprintln(w, "skip", k.name)
			continue
		}
		fmt.Fprintln(w, "take", k.name)
	}
	if wanted(nil, true) {
		fmt.Fprintln(w, "never")
	} else if wanted(tree, true) {
		fmt.Fprintln(w, "else-if")
	}
	// x := h(x) reads the outer x; locals in the body named like the targets
	a := "k=v"
	{
		a, b := split(a)
		fmt.Fprintln(w, a, b)
	}
	var c, d string
	c, d = split("novalue")
	fmt.Fprintln(w, c, "|", d, "|", a)
	// interface parameter, untyped constant, nil
	fmt.Fprintln(w, describe(id(7), 6), describe(nil, 3))
	lo, hi, found := bounds([]int{4, -2, 9})
	fmt.Fprintln(w, lo, hi, found)
	if _, _, found := bounds(nil); !found {
		fmt.Fprintln(w, "no bounds")
	}
	sc := scale(3, 2)
	fmt.Fprintln(w, sc)
	// local closures: captured variables, an error-exit closure, a closure called from two places
	count := 0
	bump := func(by int) int {
		count += by
		return count
	}
	fail := func(err error) error {
		count = -1
		return fmt.Errorf("failed after %d: %w", len(xs), err)
	}
	fmt.Fprintln(w, bump(2), bump(note("c1")))
	for i := 0; i < 3; i++ {
		v := bump(i)
		if v > 100 {
			return fail(errors.New("too big"))
		}
	}
	verify := func(k string) error {
		if k == "" {
			return errors.New("empty")
		}
		return nil
	}
	bail := func(err error) error {
		count = -2
		return fmt.Errorf("bail: %w", err)
	}
	if err := verify("k"); err != nil {
		return bail(err)
	}
	if err := verify(""); err == nil {
		return bail(errors.New("unexpected"))
	}
	pick := func(k string) (int, bool) {
		v, ok := m[k]
		return v, ok
	}
	if v, ok := pick("a"); ok {
		fmt.Fprintln(w, "picked", v, count)
	}
	if _, ok := pick("zz"); !ok {
		fmt.Fprintln(w, "not picked")
	}
	{
		count := 1000 // shadows the captured variable: the closure must not be inlined here
		r := bump(1)
		fmt.Fprintln(w, r, count)
	}
	fmt.Fprintln(w, count)
	// helper calls nested in larger statements (hoisted when evaluated first)
	var acc []int
	for _, k := range tree.kids {
		acc = append(acc, weight(k))
	}
	fmt.Fprintln(w, acc, note("n1")+weight(tree), weight(tree)+note("n2"))
	if len(acc) > 0 && wanted(tree, false) {
		fmt.Fprintln(w, "short-circuit kept")
	}
	var msgs []string
	for _, pair := range [][2]string{{"x", "y"}, {"x", "x"}} {
		if msg := mismatch(pair[0], pair[1]); msg != "" {
			msgs = append(msgs, msg)
		}
	}
	if n := weight(tree); n > 1 {
		msgs = append(msgs, fmt.Sprint("heavy ", n))
	} else {
		msgs = append(msgs, "light")
	}
	fmt.Fprintln(w, msgs)
	// range operand
	for i, n := range names(tree) {
		fmt.Fprintln(w, i, n)
	}
	// nested helpers, recursion left alone
	fmt.Fprintln(w, total(tree), depth(tree))
	wv, werr := weightOrErr(tree.kids[1])
	fmt.Fprintln(w, wv, werr)
	// defer and go statements
	deferred(w)
	for _, k := range []int{2, -1} {
		if nd := mkNode("q", k); nd != nil {
			fmt.Fprintln(w, "node", nd.name, nd.n)
		} else {
			fmt.Fprintln(w, "no node for", k)
		}
	}
	// an inlined assignment as the last statement of a case clause (the end label needs a statement)
	for _, k := range []string{"a", "zz", ""} {
		var v int
		var err error
		switch {
		case k == "":
			err = errors.New("no key")
		case len(k) == 1:
			v, err = lookup(m, k)
		default:
			v, err = lookupOrZero(m, k)
		}
		fmt.Fprintln(w, "switch", k, v, err)
	}
	gb := &box{v: 1}
	for _, by := range []int{2, 0, 5} {
		guardedNote(w, gb, by)
		fmt.Fprintln(w, "after", gb.v)
	}
	for _, nm := range []string{"x", "", "skip"} {
		v, err := tail(w, nm)
		fmt.Fprintln(w, "tail:", v, err)
	}
	// a helper call nested in the operand of a range, a switch tag and an if condition
	twice := func(k string) string { note("twice " + k); return k + "," + k + "x" }
	for i, part := range strings.Split(twice("r"), ",") {
		fmt.Fprintln(w, "part", i, part)
	}
	switch strings.ToUpper(twice("s")) {
	case "S,SX":
		fmt.Fprintln(w, "tag matched")
	default:
		fmt.Fprintln(w, "tag missed")
	}
	if strings.HasPrefix(twice("t"), "t,") && note("rhs") > 0 {
		fmt.Fprintln(w, "cond held")
	}
	var up string
	if up = strings.ToUpper(twice("u")); up != "" {
		fmt.Fprintln(w, "init held", up)
	}
	// helpers that defer, called for their value in the middle of the caller: the deferred calls run
	// after the results are evaluated and before the caller goes on
	for _, nm := range []string{"p", ""} {
		v, err := closing(w, nm)
		fmt.Fprintln(w, "closing:", v, err)
		if s, err := closing(w, nm+"2"); err == nil {
			fmt.Fprintln(w, "closing ok", s)
		}
	}
	cb := &box{v: 3}
	n1 := countAfter(cb)
	fmt.Fprintln(w, "countAfter", n1, cb.v)
	cb.v = -9
	fmt.Fprintln(w, "countAfter", countAfter(cb), cb.v)
	// generic receiver
	var gc cache[string, int]
	fmt.Fprintln(w, gc.getOr("a", func() int { return note("mk1") }), gc.getOr("a", func() int { return note("mk2") }), gc.hits, len(gc.m))
	// not inlined
	err := guarded(func() { panic("boom") })
	fmt.Fprintln(w, err)
	_, err = lookupOrZero(m, "")
	return err
}

func main() {
	var w strings.Builder
	err := run(&w)
	fmt.Print(w.String())
	fmt.Println("final:", err, len(trace))
	if err == nil {
		os.Exit(3)
	}
}
