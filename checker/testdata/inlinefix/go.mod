module github.com/google/osv-scalibr/zzinlinefix

go 1.24.0
