package main

import (
	"fmt"
	"go/token"
	"go/types"
	"sort"
	"strings"

	"golang.org/x/tools/go/ssa"
)

// predicateTable computes a canonical signature of a small boolean function: its atomic
// conditions (rendered by definition, parameters as paramN) and the truth table of the result over
// all assignments of those atoms, obtained by walking the control-flow graph. Two bodies that are
// equal as boolean combinations of the same atoms (De Morgan, early returns, nested ifs, `ret :=
// a || b; return !ret`) get the same signature; a body that computes another function of the atoms
// (a tautology after a slipped negation, a dropped disjunct) does not. ok=false when the function
// is not of that shape (loops, more than 10 atoms, non-boolean result).
func predicateTable(fn *ssa.Function) (sig string, ok bool) { return decisionTable(fn, false) }

// decisionTable is predicateTable generalised to functions that return an error: the "result" is
// "returns nil". A test `len(x) == 0` / `len(x) != 0` on a slice that the function itself only
// grows with append (the usual "collect problems, fail if any" idiom) is not an atom: on a path it is
// true exactly when no append was executed.
func decisionTable(fn *ssa.Function, nilError bool) (sig string, ok bool) {
	atoms, table, ok := decisionTableRaw(fn, nilError)
	if !ok {
		return "", false
	}
	return fmt.Sprintf("atoms=[%s] table=%s", strings.Join(atoms, " ; "), table), true
}

// decisionTableRaw returns the sorted atoms and the truth table (row i: bit k of i is the value of
// atom k).
func decisionTableRaw(fn *ssa.Function, nilError bool) (atomsOut []string, tableOut string, ok bool) {
	if fn == nil || len(fn.Blocks) == 0 || fn.Signature.Results().Len() != 1 {
		return nil, "", false
	}
	if !nilError {
		if b, isB := fn.Signature.Results().At(0).Type().Underlying().(*types.Basic); !isB || b.Kind() != types.Bool {
			return nil, "", false
		}
	}
	isLenTest := func(v ssa.Value) (empty bool, ok bool) {
		bo, isB := v.(*ssa.BinOp)
		if !isB || (bo.Op != token.EQL && bo.Op != token.NEQ && bo.Op != token.GTR) {
			return false, false
		}
		c, isC := bo.X.(*ssa.Call)
		if !isC {
			return false, false
		}
		bi, isBi := c.Call.Value.(*ssa.Builtin)
		if !isBi || bi.Name() != "len" {
			return false, false
		}
		if k, isK := constInt(bo.Y); !isK || k != 0 {
			return false, false
		}
		if _, isSl := c.Call.Args[0].Type().Underlying().(*types.Slice); !isSl {
			return false, false
		}
		// the slice must be local (a phi / append result / empty literal), not a parameter or field
		switch c.Call.Args[0].(type) {
		case *ssa.Phi, *ssa.Call, *ssa.Slice:
		default:
			return false, false
		}
		return bo.Op == token.EQL, true
	}
	for _, b := range fn.Blocks {
		for _, pr := range b.Preds {
			if b.Dominates(pr) {
				return nil, "", false // loop
			}
		}
	}
	type akey struct {
		k   string
		neg bool
	}
	atomKey := map[ssa.Value]akey{}
	// comparisons with == / != are one atom "A == B" (operands sorted), negated for !=
	rv := func(v ssa.Value) string {
		// the marks of unfolded once-assigned locals carry no meaning for an atom's identity
		return strings.NewReplacer("‹", "", "›", "").Replace(renderValueDeep(v))
	}
	canon := func(v ssa.Value) akey {
		if bo, ok := v.(*ssa.BinOp); ok && (bo.Op == token.EQL || bo.Op == token.NEQ) {
			a, b := rv(bo.X), rv(bo.Y)
			if a > b {
				a, b = b, a
			}
			return akey{a + " == " + b, bo.Op == token.NEQ}
		}
		return akey{rv(v), false}
	}
	var atoms []string
	seenAtom := map[string]bool{}
	var collect func(v ssa.Value, d int)
	collect = func(v ssa.Value, d int) {
		if d > 20 {
			return
		}
		switch x := v.(type) {
		case *ssa.Const:
			return
		case *ssa.UnOp:
			if x.Op == token.NOT {
				collect(x.X, d+1)
				return
			}
		case *ssa.Phi:
			for _, e := range x.Edges {
				collect(e, d+1)
			}
			return
		}
		if _, isLen := isLenTest(v); isLen {
			return
		}
		k := canon(v)
		atomKey[v] = k
		if !seenAtom[k.k] {
			seenAtom[k.k] = true
			atoms = append(atoms, k.k)
		}
	}
	for _, b := range fn.Blocks {
		if ifi := blockIf(b); ifi != nil {
			collect(ifi.Cond, 0)
		}
		if len(b.Instrs) > 0 {
			if ret, isR := b.Instrs[len(b.Instrs)-1].(*ssa.Return); isR && !nilError {
				collect(ret.Results[0], 0)
			}
		}
	}
	sort.Strings(atoms)
	if len(atoms) > 12 {
		return nil, "", false
	}
	idx := map[string]int{}
	for i, a := range atoms {
		idx[a] = i
	}
	var table strings.Builder
	for mask := 0; mask < 1<<len(atoms); mask++ {
		phiVal := map[*ssa.Phi]bool{}
		appended := false
		var eval func(v ssa.Value) (bool, bool)
		eval = func(v ssa.Value) (bool, bool) {
			if empty, isLen := isLenTest(v); isLen {
				return empty == !appended, true
			}
			switch x := v.(type) {
			case *ssa.Const:
				return constBool(x)
			case *ssa.UnOp:
				if x.Op == token.NOT {
					r, ok := eval(x.X)
					return !r, ok
				}
			case *ssa.Phi:
				r, ok := phiVal[x]
				return r, ok
			}
			k, ok := atomKey[v]
			if !ok {
				return false, false
			}
			return (mask&(1<<idx[k.k]) != 0) != k.neg, true
		}
		cur, prev := fn.Blocks[0], (*ssa.BasicBlock)(nil)
		res, done := false, false
		for steps := 0; steps < 200 && !done; steps++ {
			// phis first
			for _, in := range cur.Instrs {
				ph, isPhi := in.(*ssa.Phi)
				if !isPhi {
					break
				}
				if bt, isB := ph.Type().Underlying().(*types.Basic); !isB || bt.Kind() != types.Bool {
					continue
				}
				for i, pr := range cur.Preds {
					if pr == prev {
						if r, ok := eval(ph.Edges[i]); ok {
							phiVal[ph] = r
						} else {
							return nil, "", false
						}
					}
				}
			}
			for _, in := range cur.Instrs {
				if c, isC := in.(*ssa.Call); isC && isCallTo(c, "builtin", "", "append") {
					appended = true
				}
			}
			last := cur.Instrs[len(cur.Instrs)-1]
			switch t := last.(type) {
			case *ssa.Return:
				if nilError {
					res, done = isNilConst(t.Results[0]), true
					break
				}
				r, ok := eval(t.Results[0])
				if !ok {
					return nil, "", false
				}
				res, done = r, true
			case *ssa.If:
				c, ok := eval(t.Cond)
				if !ok {
					return nil, "", false
				}
				prev = cur
				if c {
					cur = cur.Succs[0]
				} else {
					cur = cur.Succs[1]
				}
			case *ssa.Jump:
				prev, cur = cur, cur.Succs[0]
			default:
				return nil, "", false
			}
		}
		if !done {
			return nil, "", false
		}
		if res {
			table.WriteByte('1')
		} else {
			table.WriteByte('0')
		}
	}
	return atoms, table.String(), true
}

// conditionHelpers lists the first-party boolean functions whose result directly decides a branch in fn.
func conditionHelpers(p *Prog, fn *ssa.Function) []*ssa.Function {
	var out []*ssa.Function
	seen := map[*ssa.Function]bool{}
	for _, b := range fn.Blocks {
		ifi := blockIf(b)
		if ifi == nil {
			continue
		}
		inner, _ := stripNot(ifi.Cond)
		c, ok := inner.(*ssa.Call)
		if !ok {
			continue
		}
		cal := c.Call.StaticCallee()
		if cal == nil || len(cal.Blocks) == 0 || !p.firstParty(cal) || seen[cal] {
			continue
		}
		seen[cal] = true
		out = append(out, cal)
	}
	return out
}
