package main

import (
	"fmt"
	"go/ast"
	"go/types"
	"os"

	"golang.org/x/tools/go/ssa"
)

func init() {
	register(&PropDef{
		ID: "C02",
		Explain: "Decided, over every first-party function reachable (static calls, function values, class-hierarchy resolution of interface calls) from the Extract/FileRequired/ToPURL/Ecosystem methods of the filesystem extractors registered in list.All that can run offline: " +
			"D1 panic-freedom discipline — every index and slice expression is proved in bounds (difference-constraint prover: dominating branches, strings/regexp/builtin API contracts, loop counters, call-site facts of unexported helpers) or is an audited site with a stated data invariant and machine-checked witnesses; pointers that encoding/json or yaml decoding may leave nil (top-level &p targets, pointer fields, pointer elements of slices and maps, followed through first-party calls) are nil-tested before being dereferenced; nil-on-failure results are not used with ok/err discarded; single-value type assertions appear only on Package.Metadata (C14-D2) or audited; no possibly-nil *Package is appended to a result; " +
			"D2/D3 failure confinement — the dispatch function returns nothing, a failed Open/Stat/Extract is recorded under the running extractor's name on every path, statuses are per extractor. " +
			"Added in round 2: D4 termination structure — every recursive function reachable from an extractor is in an audited table with its termination argument and, where checkable, a witness (depth limit compared on entry and passed +1; byte budget compared, passed down and assigned back; recursion on a strict part of the argument), and a map consulted as a visited set inside a loop is updated with the very key looked up. Added in round 8: D4 decoder loops — inside `for dec.More()` a failed json Decode leaves the loop. NOT decided: nil dereferences in general, panics inside third-party parsers, integer overflow, termination and time/memory bounds (e.g. recursion over attacker-controlled parent links in the containerd extractor), absence of recover.",
		Assume:       []string{"audited sites are safe by the stated data invariant", "third-party decoders other than encoding/json and yaml never leave nil pointers (encoding/xml and BurntSushi/toml allocate)"},
		ThoroughGOOS: []string{"linux", "windows", "darwin"},
		Run:          runC02,
		Controls: []Mutant{
			{Name: "pnpm-length-check-removed", File: "extractor/filesystem/language/javascript/pnpmlock/pnpmlock.go", Old: "		if len(parts) < 2 {\n			return \"\", \"\", fmt.Errorf(\"invalid dependency path: %v\", dependencyPath)\n		}\n		name = strings.Join(parts[:2], \"/\")", New: "		name = strings.Join(parts[:2], \"/\")", Rule: "D1-bounds", Site: "pnpmlock"},
			{Name: "osrelease-length-check-removed", File: "extractor/filesystem/os/osrelease/osrelease.go", Old: "if len(s) >= 2 && strings.HasPrefix", New: "if strings.HasPrefix", Rule: "D1-bounds", Site: "resolveString"},
			{Name: "npm-alias-check-removed", File: "extractor/filesystem/language/javascript/packagelockjson/packagelockjson.go", Old: "if i := strings.LastIndex(detail.Version, \"@\"); i >= 4 {", New: "if i := strings.LastIndex(detail.Version, \"@\"); i != 0 {", Rule: "D1-bounds", Site: "packagelockjson"},
			{Name: "pipfile-nil-check-removed", File: "extractor/filesystem/language/python/pipfilelock/pipfilelock.go", Old: "	if parsedLockfile == nil {\n		parsedLockfile = &pipenvLockFile{}\n	}\n", New: "", Rule: "D1-nil-decode", Site: "pipfilelock"},
			{Name: "vscode-nil-check-removed", File: "extractor/filesystem/misc/vscodeextensions/vscodeextensions.go", Old: "		if ext == nil {\n			return inventory.Inventory{}, fmt.Errorf(\"bad format in %s: null extension entry\", input.Path)\n		}\n", New: "", Rule: "D1-nil-decode", Site: "vscodeextensions"},
			{Name: "dpkg-suffix-check-replaced", File: "extractor/filesystem/os/dpkg/dpkg.go", Old: "		if !strings.HasSuffix(source, \")\") {", New: "		if strings.LastIndex(source, \")\") == -1 {", Rule: "D1-bounds", Site: "parseSourceNameVersion"},
			{Name: "gemfile-match-check-weakened", File: "extractor/filesystem/language/ruby/gemfilelock/gemfilelock.go", Old: "if len(m) < 3 || m[1] == \"\" || m[2] == \"\" {", New: "if m[1] == \"\" || m[2] == \"\" {", Rule: "D1-bounds", Site: "gemfilelock"},
			{Name: "comma-ok-assert-to-single", File: "extractor/filesystem/language/java/archive/archive.go", Old: "	r, ok := input.Reader.(io.ReaderAt)\n	l := input.Info.Size()\n	if !ok {", New: "	r := input.Reader.(io.ReaderAt)\n	l := input.Info.Size()\n	if r == nil {", Rule: "D1-assert", Site: "extractWithMax"},
			{Name: "open-error-dropped", File: "extractor/filesystem/filesystem.go", Old: "		addErrToMap(wc.errors, ex.Name(), fmt.Errorf(\"Open(%s): %w\", path, err))\n", New: "", Rule: "D3-surfaced", Site: "Open"},
			{Name: "archive-depth-not-increased", File: "extractor/filesystem/language/java/archive/archive.go", Old: "e.extractWithMax(ctx, subInput, depth+1, openedBytes)", New: "e.extractWithMax(ctx, subInput, depth, openedBytes)", Rule: "D4-recursion", Site: "extractWithMax"},
			{Name: "visited-set-records-the-start-file", File: "extractor/filesystem/language/python/requirements/requirements.go", Old: "		found[path] = true\n", New: "		found[initPath] = true\n", Rule: "D4-visited-set", Site: "extractFromExtraPaths"},
			{Name: "containerd-visited-not-recorded", File: "extractor/filesystem/containers/containerd/containerd_linux.go", Old: "		visited[digest] = true\n", New: "		visited[\"\"] = true\n", Rule: "D4-visited-set", Site: "getParentSnapshotIDByDigest"},
		},
	})
}

var auditedC02 = map[string]auditEntry{
	"clients/datasource.HTTPAuthentication.Get:wwwAuth[idx]":                                        {reason: "idx is the result of authIndex (slices.IndexFunc over the same slice), tested >= 0", needs: []string{"call:clients/datasource.HTTPAuthentication.authIndex"}},
	"extractor/filesystem/language/javascript/internal/commitextractor.TryExtractCommit:matched[1]": {reason: "every pattern in the package-level matchers list has exactly one capture group; matched != nil is tested"},
	"extractor/filesystem/os/dpkg.parseSourceNameVersion:source[idx + 2:len(source) - 1]":           {reason: "source contains \" (\" at idx and ends in \")\", a different byte, so len(source)-1 >= idx+2", needs: []string{"call:strings.HasSuffix", "call:strings.Index"}},
	"extractor/filesystem/os/flatpak.Extractor.extractFromInput:f.Releases.Release[0]":              {reason: "reached only with pkgVersion != \"\", which is assigned only under len(f.Releases.Release) > 0"},
	"extractor/filesystem/os/nix.Extractor.Extract:strings.Split(input.Path, \"/\")[2]":             {reason: "Extract runs only on paths FileRequired accepted (engine rule C01-D1), and FileRequired requires more than 3 path components"},
}

// extractorRoots: Extract/FileRequired/ToPURL/Ecosystem methods of every plugin registered in
// extractor/filesystem/list.All whose Requirements() allow running offline.
func extractorRoots(p *Prog, r *Report, rule string) ([]*ssa.Function, int) {
	pk := p.TPkg("extractor/filesystem/list")
	if pk == nil {
		r.Undecided(rule, "anchor:extractor/filesystem/list", "-", "registry package not found")
		return nil, 0
	}
	te := &tableEval{pk: pk}
	if o, ok := pk.Types.Scope().Lookup("concat").(*types.Func); ok {
		te.concatF = o
	}
	if o, ok := pk.Types.Scope().Lookup("vals").(*types.Func); ok {
		te.valsF = o
	}
	allVar, _ := pk.Types.Scope().Lookup("All").(*types.Var)
	if allVar == nil || te.concatF == nil {
		r.Undecided(rule, "anchor:list.All", "-", "registry table not found")
		return nil, 0
	}
	rows := te.evalMap(te.varInit(allVar), 0)
	en := pluginEnums(p, r)
	var roots []*ssa.Function
	n := 0
	for _, k := range sortedKeys(rows) {
		for _, ctor := range rows[k].Ctors {
			ts, ok := concreteResults(p.ssaFuncOf(ctor), 0)
			if !ok {
				r.Undecided(rule, "registry:"+k, "-", "cannot determine the plugin's concrete type")
				continue
			}
			for _, t := range ts {
				caps, _ := capsResults(p.methodOf(t, "Requirements"))
				online := false
				for _, c := range caps {
					for _, nw := range c.Network {
						if nw == en.NetOnline {
							online = true
						}
					}
				}
				if online {
					r.Note("plugin %s requires network access: outside 'can run offline'", k)
					continue
				}
				n++
				for _, m := range []string{"Extract", "FileRequired", "ToPURL", "Ecosystem"} {
					if f := p.methodOf(t, m); f != nil {
						roots = append(roots, f)
					}
				}
			}
		}
	}
	return roots, n
}

func runC02(p *Prog, r *Report) {
	r.Rule("D1-bounds", "index/slice expressions reachable from extractors proved in bounds or audited")
	roots, n := extractorRoots(p, r, "D1-bounds")
	r.Instances("D1-bounds", "offline filesystem extractors", n, 55)
	fns := p.reachableFrom(roots)
	r.Count("functions reachable from extractor methods", len(fns))
	np, nu := 0, 0
	for _, fn := range fns {
		pk := p.pkgOfFn(fn)
		if pk != nil && p.isGenerated(pk, fn.Pos()) {
			continue
		}
		a, b := checkBoundsA(p, r, "D1-bounds", fn, auditedC02)
		np += a
		nu += b
	}
	if os.Getenv("SCALINT_LEARN") != "" {
		for _, g := range recursiveGroups(p, fns) {
			var ks []string
			for _, f := range g {
				ks = append(ks, fnKey(f))
			}
			fmt.Fprintf(os.Stderr, "LEARN-REC\t%v\n", ks)
		}
	}
	c02Termination(p, r, fns)
	r.Count("bounds sites proved", np)
	r.Count("bounds sites unproved", nu)
	r.Rule("D1-nullable-fields", "a pointer field that is compared with nil somewhere is tested before every dereference")
	nullableFieldDerefs(p, r, "D1-nullable-fields", fns)
	r.Rule("D4-decoder-loops", "a json More() loop is left when Decode fails (the decoder's error is sticky)")
	decoderLoopsStopOnError(p, r, "D4-decoder-loops", fns)
	r.Rule("D1-nil-local", "a local pointer that is nil on some path into a merge point is tested before it is dereferenced")
	nilLocalDerefs(p, r, "D1-nil-local", fns, auditedC02)
	r.Rule("D1-nil-decode", "pointers that JSON/YAML decoding may leave nil are tested before they are dereferenced")
	inScope := map[*ssa.Function]bool{}
	for _, f := range fns {
		inScope[f] = true
	}
	nt := &nilTaint{p: p, params: map[*ssa.Function]map[int]bool{}}
	sites := nt.analyse(fns, inScope)
	r.Count("decode-tainted functions", len(nt.params))
	for _, s := range sites {
		e := p.exprAt(s.fn, s.in.Pos(), func(n ast.Node) bool {
			switch n.(type) {
			case *ast.SelectorExpr, *ast.StarExpr, *ast.CallExpr:
				return true
			}
			return false
		})
		site := fnKey(s.fn) + ":" + s.what + ":" + e
		if a, ok := auditedC02[site]; ok {
			r.Audit("D1-nil-decode", site, p.Pos(s.in.Pos()), a.reason)
			continue
		}
		r.Fail("D1-nil-decode", site, p.Pos(s.in.Pos()), "dereference of a pointer that decoding may leave nil (document says null / omits it) without a dominating nil test")
	}
	if len(sites) == 0 {
		r.OK("D1-nil-decode", "all", "-", "no unguarded dereference of a decoded pointer")
	}
	ndec := 0
	for _, fn := range fns {
		forEachInstr(fn, func(_ *ssa.BasicBlock, _ int, in ssa.Instruction) {
			if c, ok := in.(*ssa.Call); ok {
				if is, _ := isNullingDecoder(refOf(c.Common())); is {
					ndec++
				}
			}
		})
	}
	r.Instances("D1-nil-decode", "JSON/YAML decode calls in scope", ndec, 15)

	r.Rule("D1-discarded-ok", "no nil-on-failure result used with its ok/err discarded")
	r.Rule("D1-assert", "single-value type assertions only on Package.Metadata (governed by C14's writer/reader agreement)")
	r.Rule("D1-nil-package", "no possibly-nil *Package is appended to an extractor's result")
	nas := 0
	for _, fn := range fns {
		pk := p.pkgOfFn(fn)
		if pk != nil && p.isGenerated(pk, fn.Pos()) {
			continue
		}
		checkDiscardedOK(p, r, "D1-discarded-ok", fn, auditedC02OK)
		nas += checkAsserts(p, r, "D1-assert", fn, func(ta *ssa.TypeAssert) (bool, string) {
			if loadsField(ta.X, "Package", "Metadata") {
				return true, "assertion on Package.Metadata (C14-D2)"
			}
			if why, ok := auditedAssertC02[fnKey(ta.Parent())+":"+ta.AssertedType.String()]; ok {
				return true, "audited: " + why
			}
			return false, ""
		})
		checkNilAppend(p, r, "D1-nil-package", fn)
	}
	r.Instances("D1-assert", "single-value type assertions in scope", nas, 30)

	// D2 failure confinement (shared with C09-D3): errors of Open/Stat/Extract are recorded per extractor
	r.Rule("D3-surfaced", "a failing file is confined to its extractor's status")
	r.Rule("D3-status", "status per configured extractor")
	r.Rule("D3-lazystat", "lazy stat cache overwritten completely")
	e := resolveEngine(p, r, "D3-surfaced")
	if e.ok() {
		c09Surfaced(p, r, e)
		// no return value of the dispatch function: an extractor error cannot abort the walk
		r.Check(e.runExtractor.Signature.Results().Len() == 0, "D3-surfaced", fnKey(e.runExtractor)+":no-result", p.Pos(e.runExtractor.Pos()), "the dispatch function returns nothing", "the dispatch function returns a value: an extractor failure could abort the walk")
	}
}

var auditedC02OK = map[string]auditEntry{}

var auditedAssertC02 = map[string]string{
	"extractor/filesystem/language/java/archive.Extractor.extractWithMax:io.Reader": "r is input.Reader (statically an io.Reader) or a *bytes.Reader; the dynamic type does not depend on file content",
	"extractor/filesystem/language/java/archive.Extractor.extractWithMax:io.Seeker": "depends on the file-system implementation, not on file content: os files, image-view files and *bytes.Reader all implement io.Seeker (outside the property's quantifier)",
}

// checkNilAppend: a pointer appended to a []*extractor.Package must be a fresh allocation, be
// known non-nil, or be the value result of a call whose error result was tested nil on the way.
func checkNilAppend(p *Prog, r *Report, rule string, fn *ssa.Function) {
	key := fnKey(fn)
	forEachInstr(fn, func(_ *ssa.BasicBlock, _ int, in ssa.Instruction) {
		c, ok := in.(*ssa.Call)
		if !ok || !isCallTo(c, "builtin", "", "append") || len(c.Call.Args) != 2 {
			return
		}
		st, ok := c.Type().Underlying().(*types.Slice)
		if !ok {
			return
		}
		n := namedOf(st.Elem())
		if n == nil || n.Obj().Name() != "Package" || n.Obj().Pkg() == nil || n.Obj().Pkg().Path() != fp("extractor") {
			return
		}
		if _, isPtr := st.Elem().(*types.Pointer); !isPtr {
			return
		}
		for _, v := range flattenVariadic(c.Call.Args[1:]) {
			if v == c.Call.Args[1] {
				continue // append(a, b...) : elements of another slice
			}
			v = stripChangeType(v)
			if _, isAl := v.(*ssa.Alloc); isAl {
				continue
			}
			ex, isEx := v.(*ssa.Extract)
			site := key + ":append(" + v.Name() + ")"
			if e := p.exprAt(fn, c.Pos(), func(n ast.Node) bool { _, ok := n.(*ast.CallExpr); return ok }); e != "" {
				site = key + ":" + e
			}
			if isEx {
				if call, ok := ex.Tuple.(*ssa.Call); ok {
					// needs err == nil of that call on every path to the append
					fa := newFA(p, r, fn)
					isErr := func(x ssa.Value) bool {
						e2, ok := x.(*ssa.Extract)
						return ok && e2.Tuple == ssa.Value(call) && e2.Index != ex.Index && isErrorType(e2)
					}
					g, nTests := fa.guarded(c, false, condNonNil(isErr))
					if nTests > 0 && g {
						r.OK(rule, site, p.Pos(c.Pos()), "appended only when the producing call returned a nil error")
						continue
					}
					bc := newBoundsCtx(p, fn)
					if bc.graphFor(c).nn[bc.key(v)] {
						r.OK(rule, site, p.Pos(c.Pos()), "appended under a non-nil test")
						continue
					}
					r.Fail(rule, site, p.Pos(c.Pos()), "a *Package returned together with an error is appended without the error having been found nil on this path: on failure the nil entry reaches the engine, which dereferences every package")
					continue
				}
			}
			// phi / param / load: require a non-nil fact when the value may be nil by construction
			if ph, isPhi := v.(*ssa.Phi); isPhi {
				for _, e := range ph.Edges {
					if isNilConst(e) {
						bc := newBoundsCtx(p, fn)
						if !bc.graphFor(c).nn[bc.key(v)] {
							r.Fail(rule, site, p.Pos(c.Pos()), "a *Package that is nil on some path is appended to the result")
						}
					}
				}
			}
		}
	})
}
