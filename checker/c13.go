package main

import (
	"fmt"
	"go/constant"
	"go/token"
	"go/types"
	"strings"

	"golang.org/x/tools/go/ssa"
)

func init() {
	register(&PropDef{
		ID:       "C13",
		Patterns: []string{"./guidedremediation/internal/manifest/npm", "./guidedremediation/internal/manifest/maven", "./guidedremediation/internal/manifest", "./internal/mavenutil", "./guidedremediation/result"},
		Explain: "Decided: D1 no path injection — every non-constant string that reaches the path argument of gjson.Get*/sjson.Set* in the package.json writer is the result of gjson.Escape; D2 panic discipline — index/slice expressions of the npm and maven manifest packages are proved in bounds (or audited), no unguarded single-value assertions; " +
			"D3 applied or error (package.json) — within the handling of one update, the loop can move on to the next update only after a sjson.SetBytes for it, every other way out is a non-nil error (decided path-sensitively over the per-update 'matched' flag, which is reset for every update); " +
			"D4 identity on no updates (package.json) — every call that changes the buffer is inside the per-update loop and what is written is the buffer read (possibly updated); the write and its directory creation are the only effects; " +
			"D5 origin separator agreement (pom.xml) — origins are '@'-joined component lists: code that splits them on '@' re-joins with '@', and suffix operations on origins never use a bare component constant (they strip '@'+component), so patches are filed under the origin the writer looks up. " +
			"Added in round 2: D6 pom.xml: a section is marked as handled under the origin whose patches are applied to it; D7 package.json: an entry is rewritten only on the 'current value == original version' edge; D8 no Trim-family call with a computed cutset in the manifest writers. Added in round 3: D9 candidate parents are identified with mavenutil.ProjectKey at every site and dependencies are matched on Key(); D10 a parent's requirements are filed under the path of the file that was opened. Added in round 7: D12 in buildPatches the 'property already set?' test reads the cell the guarded store fills (same origin key). Added in round 8: D13 every decoded <profile>/<plugin> element is handed to the nested writer (no path from the decode to the next token avoids it except an error return). NOT decided: byte-for-byte / token-for-token preservation and re-read equality (values); the pom.xml writer's per-token rewrite rules beyond D5.",
		Run: runC13,
		Controls: []Mutant{
			{Name: "name-unescaped", File: "guidedremediation/internal/manifest/npm/packagejson.go", Old: "			key := gjson.Escape(name)", New: "			key := name", Rule: "D1-escaped-path", Site: "Write"},
			{Name: "matched-flag-not-reset", File: "guidedremediation/internal/manifest/npm/packagejson.go", Old: "\t\t\talreadyMatched := false\n", New: "", Old2: "\t\tfor _, req := range patch.PackageUpdates {\n", New2: "\t\talreadyMatched := false\n\t\tfor _, req := range patch.PackageUpdates {\n", Rule: "D3-applied-or-error", Site: "Write"},
			{Name: "silent-no-op", File: "guidedremediation/internal/manifest/npm/packagejson.go", Old: "			if !alreadyMatched {\n				return fmt.Errorf(\"dependency to patch not found in %s: %s\", original.FilePath(), req.Name)\n			}\n", New: "", Rule: "D3-applied-or-error", Site: "Write"},
			{Name: "property-patch-unchecked", File: "guidedremediation/internal/manifest/maven/pomxml.go", Old: "	if start < 0 || !strings.HasPrefix(s2, s1[:start]) {", New: "	if !strings.HasPrefix(s2, s1[:max(start, 0)]) {", Rule: "D2-bounds", Site: "generatePropertyPatchesAux"},
			{Name: "origin-joined-without-separator", File: "guidedremediation/internal/manifest/maven/pomxml.go", Old: "	return tokens[1], strings.Join(tokens[2:], \"@\")", New: "	return tokens[1], strings.Join(tokens[2:], \"\")", Rule: "D5-origin-separator", Site: "parentPathFromOrigin"},
			{Name: "origin-suffix-bare-component", File: "guidedremediation/internal/manifest/maven/pomxml.go", Old: "depOrigin, _ = strings.CutSuffix(depOrigin, \"@\"+mavenutil.OriginManagement)", New: "depOrigin = strings.TrimSuffix(depOrigin, mavenutil.OriginManagement)", Rule: "D5-origin-separator", Site: "buildPatches"},
			{Name: "property-value-cut-with-trimright", File: "guidedremediation/internal/manifest/maven/pomxml.go", Old: "patches[s1[start+2:end]] = s2[start : len(s2)-len(remainder)]", New: "patches[s1[start+2:end]] = strings.TrimRight(s2[start:], remainder)", Rule: "D8-no-computed-cutset", Site: "generatePropertyPatchesAux"},
			{Name: "section-marked-under-other-origin", File: "guidedremediation/internal/manifest/maven/pomxml.go", Old: "				o := mavenOrigin(prefix, id, mavenutil.OriginManagement)\n				updated[o] = true\n", New: "				o := mavenOrigin(prefix, id, mavenutil.OriginManagement)\n				updated[mavenutil.OriginManagement] = true\n", Rule: "D6-section-bookkeeping", Site: "writeProject"},
			{Name: "differing-entry-overwritten", File: "guidedremediation/internal/manifest/npm/packagejson.go", Old: "			depStr = \"dependencies.\" + key\n			if res := gjson.GetBytes(manif, depStr); res.Exists() {\n				ver := res.String()\n				if ver != origVer {\n					if !alreadyMatched {\n						return fmt.Errorf(\"original dependency version does not match patch: %s %q != %q\", name, ver, origVer)\n					}\n					// dependency was already matched, so we can ignore it.\n				} else {\n", New: "			depStr = \"dependencies.\" + key\n			if res := gjson.GetBytes(manif, depStr); res.Exists() {\n				ver := res.String()\n				if ver != origVer && !alreadyMatched {\n					return fmt.Errorf(\"original dependency version does not match patch: %s %q != %q\", name, ver, origVer)\n				}\n				{\n", Rule: "D7-addressed-only", Site: "Write"},
			{Name: "writer-compares-raw-project-key", File: "guidedremediation/internal/manifest/maven/pomxml.go", Old: "		if mavenutil.ProjectKey(proj) != parent.ProjectKey || proj.Packaging != \"pom\" {", New: "		if proj.ProjectKey != parent.ProjectKey || proj.Packaging != \"pom\" {", Rule: "D9-identity", Site: "parent-key"},
			{Name: "original-dependency-matched-by-name", File: "guidedremediation/internal/manifest/maven/pomxml.go", Old: "		if d.Key() == dependency.Key() && d.Version != \"\" {", New: "		if d.Name() == dependency.Name() && d.Version != \"\" {", Rule: "D9-identity", Site: "dependency-name"},
		},
		Neutral: c13Neutral,
	})
}

var auditedC13 = map[string]auditEntry{
	"guidedremediation/internal/manifest/maven.generatePropertyPatchesAux:s1[start + 2:end]":          {reason: "end >= start was tested and s1[start:start+2] == \"${\" contains no '}', so end >= start+2", needs: []string{"call:strings.Index"}},
	"guidedremediation/internal/manifest/maven.generatePropertyPatchesAux:s1[end + 1:end + 1 + next]": {reason: "next is a non-negative strings.Index into s1[end+1:], so end+1+next <= len(s1) (three-variable relation outside difference constraints)"},
	"guidedremediation/internal/manifest/maven.generatePropertyPatchesAux:s2[start:start + match]":    {reason: "match is a positive strings.Index into s2[start:], so start+match <= len(s2)"},
	"guidedremediation/internal/manifest/maven.generatePropertyPatchesAux:s2[start + match:]":         {reason: "same relation: start+match <= len(s2)"},
	"guidedremediation/internal/manifest/maven.projectStartElement:raw[start:start + end + 1]":        {reason: "end is a non-negative strings.Index into raw[start:], so start+end+1 <= len(raw)"},
	"guidedremediation/internal/manifest/maven.mavenManifest.PatchRequirement:m.requirements[i]":      {reason: "in-place filter: i counts the elements kept so far and never exceeds the range index, which is < len"},
	"guidedremediation/internal/manifest/maven.mavenManifest.PatchRequirement:m.requirements[:i]":     {reason: "same in-place filter invariant: i <= len(m.requirements)"},
}

func runC13(p *Prog, r *Report) {
	r.Rule("D1-escaped-path", "dependency names reach gjson/sjson paths only through gjson.Escape")
	r.Rule("D2-bounds", "bounds discipline over the manifest writers")
	r.Rule("D2-assert", "no unguarded single-value assertion in the manifest writers")
	r.Rule("D3-applied-or-error", "package.json: an update is applied or Write fails")
	r.Rule("D4-identity", "package.json: the buffer changes only inside the update loop; it is what gets written")
	r.Rule("D5-origin-separator", "pom.xml: origin strings are split, joined and trimmed with the '@' separator")
	r.Rule("D9-identity", "pom.xml: projects and dependencies are identified the same way by the reader and the writer")
	r.Rule("D7-addressed-only", "package.json: an entry is rewritten only when its current value equals the update's original version")
	r.Rule("D8-no-computed-cutset", "manifest writers never trim with a computed cutset (suffix/prefix removal uses TrimSuffix/TrimPrefix/slicing)")
	r.Rule("D6-section-bookkeeping", "pom.xml: a section is marked as handled under the origin whose patches were applied to it")
	for _, fn := range p.FuncsIn("guidedremediation/internal/manifest/npm", "guidedremediation/internal/manifest/maven") {
		checkBoundsA(p, r, "D2-bounds", fn, auditedC13)
		checkAsserts(p, r, "D2-assert", fn, func(ta *ssa.TypeAssert) (bool, string) {
			// EcosystemSpecific().(ManifestSpecific): the manifest passed to a writer was produced by the same package's reader
			if c, _ := callValue(ta.X); c != nil && c.Call.IsInvoke() && c.Call.Method.Name() == "EcosystemSpecific" {
				return true, "audited: the manifest handed to this package's writer is the one its reader produced"
			}
			if c, _ := callValue(ta.X); c != nil && c.Call.StaticCallee() != nil && c.Call.StaticCallee().Name() == "Clone" && c.Call.StaticCallee() == ta.Parent() {
				return true, "audited: Clone of this type returns this type"
			}
			return false, ""
		})
	}
	c13PackageJSON(p, r)
	c13Origins(p, r)
	c13Sections(p, r)
	c13Addressed(p, r)
	c13Cutsets(p, r)
	c13Identity(p, r)
	c13PluginIdentityUntouched(p, r, "D9-identity")
	r.Rule("D10-parent-origin", "pom.xml writer: a parent's requirements are filed under the path of the parent file that was opened")
	c13ParentOrigin(p, r, "D10-parent-origin")
	r.Rule("D11-writer-terminates", "pom.xml writer: the descent into profiles and plugins is one level deep")
	recursionOneLevel(p, r, "D11-writer-terminates", "guidedremediation/internal/manifest/maven", "writeProject", 3, "the text handed to the nested call starts with the same <profile>/<plugin> element, so it re-enters itself with the same arguments until the stack overflows (a profile without <id>, which the POM schema allows, is enough) — a fatal error no caller can recover from")
	r.Rule("D13-nested-elements", "pom.xml: every decoded <profile>/<plugin> element is handed to the nested writer")
	nestedElementsReachTheNestedWriter(p, r, "D13-nested-elements")
	r.Rule("D12-property-conflicts", "pom.xml: a property is set once; a second update wanting another value edits the dependency instead")
	guardedInsertSameCell(p, r, "D12-property-conflicts", p.Func("guidedremediation/internal/manifest/maven", "buildPatches"), 1, "the test 'was this property already given a value?' reads another origin's table than the one the value is then stored in (the dependency's origin instead of the property's): for a profile dependency whose version is a property defined at the top level the test never sees the earlier value, so a second update silently replaces the value an earlier, correctly addressed update had set — that requirement is written with the other requirement's version")
}

// isConstStringTableElem: v loads an element of a package-level array or slice of strings that is
// written only by the package initialiser, and only with constants.
func isConstStringTableElem(p *Prog, v ssa.Value) bool {
	globalOf := func(b ssa.Value) *ssa.Global {
		switch x := b.(type) {
		case *ssa.Global:
			return x
		case *ssa.UnOp:
			if gg, ok := x.X.(*ssa.Global); ok && x.Op == token.MUL {
				return gg
			}
		}
		return nil
	}
	var g *ssa.Global
	switch x := v.(type) {
	case *ssa.Index:
		g = globalOf(x.X) // element of the loaded array value
	case *ssa.UnOp:
		if ia, ok := x.X.(*ssa.IndexAddr); ok && x.Op == token.MUL {
			g = globalOf(ia.X)
		}
	}
	if g == nil || g.Pkg == nil {
		return false
	}
	ok := true
	fromG := func(a ssa.Value) bool {
		for d := 0; d < 4; d++ {
			switch x := a.(type) {
			case *ssa.Global:
				return x == g
			case *ssa.IndexAddr:
				a = x.X
			case *ssa.UnOp:
				a = x.X
			default:
				return false
			}
		}
		return false
	}
	nConst := 0
	constFilled := func(al *ssa.Alloc) {
		for _, ref := range *al.Referrers() {
			if ia2, isIA := ref.(*ssa.IndexAddr); isIA {
				for _, r2 := range *ia2.Referrers() {
					if s2, isS := r2.(*ssa.Store); isS {
						if _, isC := s2.Val.(*ssa.Const); isC {
							nConst++
						} else {
							ok = false
						}
					}
				}
			}
		}
	}
	for _, m := range g.Pkg.Members {
		fn, isFn := m.(*ssa.Function)
		if !isFn {
			continue
		}
		for _, f := range withAnon(fn) {
			forEachInstr(f, func(_ *ssa.BasicBlock, _ int, in ssa.Instruction) {
				st, isSt := in.(*ssa.Store)
				if !isSt {
					return
				}
				if fromG(st.Addr) {
					if f.Name() != "init" {
						ok = false
						return
					}
					switch val := st.Val.(type) {
					case *ssa.Const:
						nConst++
					case *ssa.Slice:
						// []string{…}: the backing array is filled with constants in the initialiser
						if al, isAl := val.X.(*ssa.Alloc); isAl {
							constFilled(al)
						} else {
							ok = false
						}
					case *ssa.UnOp:
						// [...]string{…}: the literal is built in a local and copied
						if al, isAl := val.X.(*ssa.Alloc); isAl && val.Op == token.MUL {
							constFilled(al)
						} else {
							ok = false
						}
					default:
						ok = false
					}
				}
			})
		}
	}
	// methods are not package members: a write from a method would be missed by the scan above
	for _, fn := range p.Funcs() {
		if fnPkg(fn) != g.Pkg.Pkg || fn.Name() == "init" {
			continue
		}
		forEachInstr(fn, func(_ *ssa.BasicBlock, _ int, in ssa.Instruction) {
			if st, isSt := in.(*ssa.Store); isSt && fromG(st.Addr) {
				ok = false
			}
		})
	}
	return ok && nConst > 0
}

func c13PackageJSON(p *Prog, r *Report) {
	fn := p.Func("guidedremediation/internal/manifest/npm", "readWriter.Write")
	if fn == nil {
		r.Undecided("D3-applied-or-error", "anchor:npm.readWriter.Write", "-", "not found")
		return
	}
	fa := newFA(p, r, fn)
	// D1
	n := 0
	forEachInstr(fn, func(_ *ssa.BasicBlock, _ int, in ssa.Instruction) {
		c, ok := in.(*ssa.Call)
		if !ok {
			return
		}
		rf := refOf(c.Common())
		isG := rf.Pkg == "github.com/tidwall/gjson" && strings.HasPrefix(rf.Name, "Get")
		isS := rf.Pkg == "github.com/tidwall/sjson" && (strings.HasPrefix(rf.Name, "Set") || strings.HasPrefix(rf.Name, "Delete"))
		if !isG && !isS {
			return
		}
		n++
		path := c.Call.Args[1]
		okk := true
		var rec func(v ssa.Value, d int)
		rec = func(v ssa.Value, d int) {
			if d > 6 {
				okk = false
				return
			}
			switch x := v.(type) {
			case *ssa.Const:
			case *ssa.BinOp:
				if x.Op == token.ADD {
					rec(x.X, d+1)
					rec(x.Y, d+1)
				} else {
					okk = false
				}
			case *ssa.Phi:
				for _, e := range x.Edges {
					rec(e, d+1)
				}
			case *ssa.Call:
				rf2 := refOf(x.Common())
				if !(rf2.Pkg == "github.com/tidwall/gjson" && rf2.Name == "Escape") {
					okk = false
				}
			case *ssa.UnOp, *ssa.Index:
				// an element of a package-level table of constant strings (the section names) is a constant
				if !isConstStringTableElem(p, x) {
					okk = false
				}
			default:
				okk = false
			}
		}
		rec(path, 0)
		r.Check(okk, "D1-escaped-path", fmt.Sprintf("%s:%s#%d", fa.key, rf.Name, n), p.Pos(c.Pos()), "path = constants + gjson.Escape(name)", "a dependency name is spliced into a gjson/sjson path without gjson.Escape: names containing path syntax (\"socket.io\", wildcards) address a different key or none, and the update is silently lost")
	})
	r.Instances("D1-escaped-path", "gjson/sjson path uses in the package.json writer", n, 2)

	// D3: per-update loop
	var sets []ssa.Instruction
	forEachInstr(fn, func(_ *ssa.BasicBlock, _ int, in ssa.Instruction) {
		if c, ok := in.(*ssa.Call); ok {
			rf := refOf(c.Common())
			if rf.Pkg == "github.com/tidwall/sjson" && strings.HasPrefix(rf.Name, "Set") {
				sets = append(sets, in)
			}
		}
	})
	if len(sets) == 0 {
		r.Fail("D3-applied-or-error", fa.key+":setters", p.Pos(fn.Pos()), "the package.json writer never calls sjson.Set*: no update is applied")
		return
	}
	// innermost loop containing the setters = the per-update loop
	hdr := loopHeaderOf(sets[0].Block())
	// (the setters may sit in an inner loop over the manifest's sections: the per-update loop is
	// then the enclosing one that ranges over the updates of a patch)
	for h := hdr; h != nil && h.Idom() != nil; h = loopHeaderOf(h.Idom()) {
		if coll, _, ok := loopScansAll(h); ok {
			if _, f, _, isF := fieldOf(loadAddr(coll)); isF && f == "PackageUpdates" {
				hdr = h
				break
			}
		}
	}
	if hdr == nil {
		r.Fail("D3-applied-or-error", fa.key+":loop", p.Pos(sets[0].Pos()), "updates are not applied in a loop over the requested updates")
		return
	}
	isSet := func(in ssa.Instruction) bool {
		for _, s := range sets {
			if s == in {
				return true
			}
		}
		return false
	}
	// path-sensitive: from the body entry, reach the loop head again (next update) or a nil-error return without passing a setter
	body := hdr.Succs[0]
	w := findPathPS(Point{body, -1}, func(in ssa.Instruction) bool {
		if len(hdr.Instrs) > 0 && in == hdr.Instrs[0] {
			return true
		}
		if ret, ok := in.(*ssa.Return); ok && isNilConst(retVal(ret, 0)) {
			return true
		}
		return false
	}, isSet, hdr)
	r.Check(w == nil, "D3-applied-or-error", fa.key+":every-update-applied", p.Pos(hdr.Instrs[0].Pos()), "the next update (or success) is reached only after a sjson.Set for this one", "the writer can move on to the next update, or report success, without having applied this one and without an error (e.g. the 'already matched' flag is not reset per update, or a missing dependency is silently skipped); witness: "+strings.Join(w, "→"))
	for _, s := range sets {
		r.Check(naturalLoop(hdr)[s.Block()], "D4-identity", fmt.Sprintf("%s:setter-in-update-loop@%s", fa.key, p.Pos(s.Pos())), p.Pos(s.Pos()), "buffer modified only inside the update loop", "the buffer is modified outside the per-update loop: the output differs from the input even with no updates")
	}
	// what is written is the buffer: os.WriteFile(outputPath, <derived from io.ReadAll>, _)
	var wf, ra *ssa.Call
	forEachInstr(fn, func(_ *ssa.BasicBlock, _ int, in ssa.Instruction) {
		if c, ok := in.(*ssa.Call); ok {
			rf := refOf(c.Common())
			if rf.is("os", "", "WriteFile") {
				wf = c
			}
			if rf.is("io", "", "ReadAll") {
				ra = c
			}
		}
	})
	if wf == nil || ra == nil {
		r.Fail("D4-identity", fa.key+":io", p.Pos(fn.Pos()), "the writer does not read the original with io.ReadAll and write with os.WriteFile")
		return
	}
	okBuf := true
	seen := map[ssa.Value]bool{}
	var rec func(v ssa.Value)
	rec = func(v ssa.Value) {
		if seen[v] {
			return
		}
		seen[v] = true
		switch x := v.(type) {
		case *ssa.Phi:
			for _, e := range x.Edges {
				rec(e)
			}
		case *ssa.Extract:
			c, ok := x.Tuple.(*ssa.Call)
			if !ok || x.Index != 0 {
				okBuf = false
				return
			}
			if c == ra {
				return
			}
			if isSet(c) {
				rec(c.Call.Args[0])
				return
			}
			okBuf = false
		default:
			okBuf = false
		}
	}
	rec(wf.Call.Args[1])
	r.Check(okBuf && wf.Call.Args[0] == ssa.Value(fn.Params[4]), "D4-identity", fa.key+":writes-the-buffer", p.Pos(wf.Pos()), "writes the bytes read, as modified by the setters, to outputPath", "what is written is not the buffer read from the original manifest (as updated by sjson), or not to the requested output path")
}

// findPathPS is findPath that tracks the values boolean phis take along the path: when a branch
// tests a phi (or its negation) whose value on this path is a known constant, only the consistent
// edge is followed. Locals re-initialised inside the loop body therefore behave as in execution.
func findPathPS(from Point, goal, avoid func(ssa.Instruction) bool, stopAt *ssa.BasicBlock) []string {
	return findPathPSx(from, -1, goal, avoid, stopAt)
}

// findPathPSEdge: the same search started by taking the edge ed (so that the boolean phis of its
// target take the values this edge gives them: the `a || b` of a `case a || b:` is true when the
// edge is a's true edge).
func findPathPSEdge(ed Edge, goal, avoid func(ssa.Instruction) bool) []string {
	return findPathPSx(Point{ed.From, len(ed.From.Instrs) - 1}, ed.Succ, goal, avoid, nil)
}

func findPathPSx(from Point, firstSucc int, goal, avoid func(ssa.Instruction) bool, _ *ssa.BasicBlock) []string {
	return searchPath(from, firstSucc, goal, avoid, nil)
}

func sortStrings(s []string) {
	for i := 1; i < len(s); i++ {
		for j := i; j > 0 && s[j] < s[j-1]; j-- {
			s[j], s[j-1] = s[j-1], s[j]
		}
	}
}

// c13Origins: separator agreement for maven origin strings.
func c13Origins(p *Prog, r *Report) {
	mu := p.TPkg("internal/mavenutil")
	if mu == nil {
		r.Undecided("D5-origin-separator", "anchor:mavenutil", "-", "not found")
		return
	}
	comps := map[string]bool{}
	for _, n := range mu.Types.Scope().Names() {
		if c, ok := mu.Types.Scope().Lookup(n).(*types.Const); ok && strings.HasPrefix(n, "Origin") && c.Val().Kind() == constant.String {
			comps[constant.StringVal(c.Val())] = true
		}
	}
	r.Instances("D5-origin-separator", "origin component constants", len(comps), 4)
	// the builder joins with "@"
	mo := p.Func("guidedremediation/internal/manifest/maven", "mavenOrigin")
	sepOK := false
	if mo != nil {
		forEachInstr(mo, func(_ *ssa.BasicBlock, _ int, in ssa.Instruction) {
			if bo, ok := in.(*ssa.BinOp); ok && bo.Op == token.ADD {
				if s, ok := constString(bo.Y); ok && s == "@" {
					sepOK = true
				}
			}
		})
	}
	r.Check(sepOK, "D5-origin-separator", "guidedremediation/internal/manifest/maven.mavenOrigin:separator", "-", "origins are built with '@' between components", "mavenOrigin no longer joins components with '@' (the separator the readers of origins assume)")
	nsites := 0
	for _, fn := range p.FuncsIn("guidedremediation/internal/manifest/maven", "internal/mavenutil", "guidedremediation/internal/manifest") {
		key := fnKey(fn)
		// Split(x, "@") ... Join(tokens..., sep): sep must be "@"
		splitsAt := false
		forEachInstr(fn, func(_ *ssa.BasicBlock, _ int, in ssa.Instruction) {
			if c, ok := in.(*ssa.Call); ok && refOf(c.Common()).is("strings", "", "Split") {
				if s, ok := constString(c.Call.Args[1]); ok && s == "@" {
					splitsAt = true
				}
			}
		})
		forEachInstr(fn, func(_ *ssa.BasicBlock, _ int, in ssa.Instruction) {
			c, ok := in.(*ssa.Call)
			if !ok {
				return
			}
			rf := refOf(c.Common())
			if rf.Pkg != "strings" {
				return
			}
			switch rf.Name {
			case "Join":
				if !splitsAt {
					return
				}
				if !derivesFrom(c.Call.Args[0], func(v ssa.Value) bool {
					cc, _ := callValue(v)
					return cc != nil && refOf(cc.Common()).is("strings", "", "Split")
				}, deriveOpts{}) {
					return
				}
				nsites++
				s, isC := constString(c.Call.Args[1])
				r.Check(isC && s == "@", "D5-origin-separator", key+":join", p.Pos(c.Pos()), "components split on '@' are re-joined with '@'", "origin components obtained by splitting on '@' are re-joined with a different separator: \"profile@id\" becomes \"profileid\" and patches are filed under an origin the writer never looks up (update silently dropped)")
			case "TrimSuffix", "CutSuffix", "HasSuffix":
				s, isC := constString(c.Call.Args[1])
				if !isC {
					return
				}
				if comps[s] {
					nsites++
					r.Fail("D5-origin-separator", key+":suffix:"+s, p.Pos(c.Pos()), fmt.Sprintf("strings.%s(origin, %q) uses a bare origin component: components are separated by '@', so the separator stays behind (\"profile@id@\") or an unrelated component ending in %q is cut", rf.Name, s, s))
					return
				}
				if strings.HasPrefix(s, "@") && comps[s[1:]] {
					nsites++
					r.OK("D5-origin-separator", key+":suffix:"+s, p.Pos(c.Pos()), "suffix includes the separator")
				}
			}
		})
	}
	r.Instances("D5-origin-separator", "origin split/join/suffix sites", nsites, 2)
}

// c13Sections: in writeProject every `updated[K] = true` is paired with the `patches[K']` lookup of
// the same section (the lookup it dominates, before the next token is read); K and K' must be the
// same value. Marking another origin as handled makes write() skip appending that origin's new
// entries (or append them twice) while Write still reports success.
func c13Sections(p *Prog, r *Report) {
	fn := p.Func("guidedremediation/internal/manifest/maven", "writeProject")
	if fn == nil {
		r.Undecided("D6-section-bookkeeping", "anchor:writeProject", "-", "not found")
		return
	}
	var updatedP, patchesP *ssa.Parameter
	for _, prm := range fn.Params {
		switch prm.Name() {
		}
		if m, ok := prm.Type().Underlying().(*types.Map); ok {
			if b, ok := m.Elem().Underlying().(*types.Basic); ok && b.Kind() == types.Bool {
				updatedP = prm
			} else if _, ok := m.Elem().Underlying().(*types.Map); ok {
				if em, ok := m.Elem().Underlying().(*types.Map); ok {
					if eb, ok := em.Elem().Underlying().(*types.Basic); ok && eb.Kind() == types.Bool {
						patchesP = prm
					}
				}
			}
		}
	}
	if updatedP == nil || patchesP == nil {
		r.Undecided("D6-section-bookkeeping", "writeProject:params", p.Pos(fn.Pos()), "cannot identify the handled-sections map and the patch table among the parameters")
		return
	}
	n := 0
	forEachInstr(fn, func(b *ssa.BasicBlock, _ int, in ssa.Instruction) {
		mu, ok := in.(*ssa.MapUpdate)
		if !ok || mu.Map != ssa.Value(updatedP) {
			return
		}
		n++
		hdr := loopHeaderOf(b)
		// lookups of the patch table this update dominates, inside the same token iteration
		var keys []ssa.Value
		forEachInstr(fn, func(b2 *ssa.BasicBlock, _ int, in2 ssa.Instruction) {
			lk, ok := in2.(*ssa.Lookup)
			if !ok || lk.X != ssa.Value(patchesP) || !b.Dominates(b2) {
				return
			}
			if hdr != nil && loopHeaderOf(b2) != hdr && !naturalLoop(hdr)[b2] {
				return
			}
			keys = append(keys, lk.Index)
		})
		site := fmt.Sprintf("writeProject:updated[%s]", renderValue(mu.Key, 0))
		if len(keys) == 0 {
			r.Fail("D6-section-bookkeeping", site, p.Pos(mu.Pos()), "a section is marked as handled but no patches are looked up for it")
			return
		}
		okK := true
		for _, k := range keys {
			same := k == mu.Key
			if !same {
				a, okA := constString(k)
				bb, okB := constString(mu.Key)
				same = okA && okB && a == bb
			}
			if !same {
				okK = false
			}
		}
		r.Check(okK, "D6-section-bookkeeping", site, p.Pos(mu.Pos()), "marked under the origin whose patches are applied", "a pom.xml section is marked as handled under a different origin than the one whose patches are applied to it: write() then skips (or duplicates) the new entries of the other origin, and the update is reported as written although the file lacks it")
	})
	r.Instances("D6-section-bookkeeping", "sections marked as handled in writeProject", n, 3)
}

// c13Addressed: in the package.json writer every sjson.Set of a path P is reachable, since the
// value at P was read (gjson.Get(manifest, P).String()), only through the "equal" edge of a
// comparison of that value with the update's original version. Rewriting an entry whose current
// constraint differs (the same package also listed in another section) changes a requirement the
// patch did not address.
func c13Addressed(p *Prog, r *Report) {
	fn := p.Func("guidedremediation/internal/manifest/npm", "readWriter.Write")
	if fn == nil {
		r.Undecided("D7-addressed-only", "anchor:npm.readWriter.Write", "-", "not found")
		return
	}
	n := 0
	forEachInstr(fn, func(b *ssa.BasicBlock, _ int, in ssa.Instruction) {
		set, ok := in.(*ssa.Call)
		if !ok {
			return
		}
		rf := refOf(set.Common())
		if rf.Pkg != "github.com/tidwall/sjson" || !strings.HasPrefix(rf.Name, "Set") {
			return
		}
		n++
		path := set.Call.Args[1]
		site := fmt.Sprintf("%s:set#%d", fnKey(fn), n)
		// comparisons  <gjson.Get*(_, path').String()> ==/!= X  with path' the same value as path
		var eqEdges []Edge
		var readBlk *ssa.BasicBlock
		for _, blk := range fn.Blocks {
			ifi := blockIf(blk)
			if ifi == nil {
				continue
			}
			bo, ok := ifi.Cond.(*ssa.BinOp)
			if !ok || (bo.Op != token.EQL && bo.Op != token.NEQ) {
				continue
			}
			for _, side := range []ssa.Value{bo.X, bo.Y} {
				sc, ok := side.(*ssa.Call)
				if !ok || refOf(sc.Common()).Name != "String" || len(sc.Call.Args) != 1 {
					continue
				}
				gc, _ := callValue(loadAddrDeep(sc.Call.Args[0]))
				if gc == nil || refOf(gc.Common()).Pkg != "github.com/tidwall/gjson" || !strings.HasPrefix(refOf(gc.Common()).Name, "Get") {
					continue
				}
				if gc.Call.Args[1] != path && renderValueDeep(gc.Call.Args[1]) != renderValueDeep(path) {
					continue
				}
				if bo.Op == token.EQL {
					eqEdges = append(eqEdges, Edge{blk, 0})
				} else {
					eqEdges = append(eqEdges, Edge{blk, 1})
				}
				readBlk = gc.Block()
			}
		}
		if len(eqEdges) == 0 || readBlk == nil {
			r.Fail("D7-addressed-only", site, p.Pos(set.Pos()), "the entry is rewritten without comparing its current value with the update's original version")
			return
		}
		ok2 := !reachable(readBlk, edgesOf(eqEdges), nil)[b]
		r.Check(ok2, "D7-addressed-only", site, p.Pos(set.Pos()), "rewritten only on the current == original edge", "an entry of package.json can be rewritten although its current constraint differs from the update's original version (e.g. the package is also listed, with another constraint, in a lower-priority section): a requirement the patch did not address is changed")
	})
	r.Instances("D7-addressed-only", "sjson.Set calls in the package.json writer", n, 1)
}

// loadAddrDeep strips loads and field selections down to the value a method receiver was taken from.
func loadAddrDeep(v ssa.Value) ssa.Value {
	for d := 0; d < 6; d++ {
		switch x := v.(type) {
		case *ssa.UnOp:
			if x.Op != token.MUL {
				return v
			}
			if al, ok := x.X.(*ssa.Alloc); ok {
				ss := storesTo(al)
				if len(ss) == 1 {
					v = ss[0]
					continue
				}
				return v
			}
			v = x.X
		default:
			return v
		}
	}
	return v
}

// cutsetDiscipline: strings.Trim/TrimLeft/TrimRight take a *set of characters*. With a computed
// second argument, or a constant of several different characters that is not a whitespace set, they
// strip every leading/trailing character that occurs in it — not that string as a prefix/suffix
// ("./" also eats the dots of "../x" and ".hidden"). Every such call in the pinned tree uses a
// single-character cutset; prefix/suffix removal is done with TrimPrefix/TrimSuffix/slicing.
func cutsetDiscipline(p *Prog, r *Report, rule string, relPkgs ...string) {
	n := 0
	for _, fn := range p.FuncsIn(relPkgs...) {
		forEachInstr(fn, func(_ *ssa.BasicBlock, _ int, in ssa.Instruction) {
			c, ok := in.(*ssa.Call)
			if !ok {
				return
			}
			rf := refOf(c.Common())
			if (rf.Pkg != "strings" && rf.Pkg != "bytes") || (rf.Name != "Trim" && rf.Name != "TrimLeft" && rf.Name != "TrimRight") {
				return
			}
			n++
			site := fmt.Sprintf("%s:%s(%s)", fnKey(fn), rf.Name, short(renderValueDeep(c.Call.Args[1]), 60))
			cs, isConst := constString(c.Call.Args[1])
			okc := isConst
			if isConst {
				distinct := map[rune]bool{}
				ws := true
				for _, ch := range cs {
					distinct[ch] = true
					if !strings.ContainsRune(" \t\r\n\v\f\x00", ch) {
						ws = false
					}
				}
				okc = len(distinct) <= 1 || ws
			}
			r.Check(okc, rule, site, p.Pos(c.Pos()), "single-character (or whitespace) cutset", "strings."+rf.Name+" is called with a computed or multi-character cutset: it removes every leading/trailing character that occurs in that string, not the string as a prefix/suffix — \"../lib\" loses its dots under the cutset \"./\", a value ending in a character of the suffix is truncated (2.10 → 2.1)")
		})
	}
	r.Count("Trim-family calls checked", n)
}

func c13Cutsets(p *Prog, r *Report) {
	cutsetDiscipline(p, r, "D8-no-computed-cutset", "guidedremediation/internal/manifest/npm", "guidedremediation/internal/manifest/maven")
}

// c13Identity: (a) a candidate local parent POM is recognised by comparing the parent's coordinates
// with mavenutil.ProjectKey(candidate) — the helper that fills group/version inherited from the
// candidate's own parent — at every site (the reader's two in mavenutil, the writer's one): a site that
// compares the raw ProjectKey field disagrees with the others for the usual multi-module layout;
// (b) two dependencies are the same requirement when their Key() (group, artifact, type, classifier)
// agree: an equality of two Name() results as an identity test merges type/classifier variants.
func c13Identity(p *Prog, r *Report) {
	na, nb := 0, 0
	for _, fn := range p.FuncsIn("guidedremediation/internal/manifest/maven", "internal/mavenutil") {
		forEachInstr(fn, func(_ *ssa.BasicBlock, _ int, in ssa.Instruction) {
			bo, ok := in.(*ssa.BinOp)
			if !ok || (bo.Op != token.EQL && bo.Op != token.NEQ) {
				return
			}
			// (a)
			if nm := namedOf(bo.X.Type()); nm != nil && nm.Obj().Name() == "ProjectKey" {
				isParentKey := func(v ssa.Value) bool {
					s, f, _, ok := fieldOf(loadAddr(v))
					return ok && f == "ProjectKey" && s == "Parent"
				}
				isHelper := func(v ssa.Value) bool {
					c, _ := callValue(v)
					return c != nil && refOf(c.Common()).is(fp("internal/mavenutil"), "", "ProjectKey")
				}
				var other ssa.Value
				switch {
				case isParentKey(bo.X):
					other = bo.Y
				case isParentKey(bo.Y):
					other = bo.X
				default:
					return
				}
				na++
				r.Check(isHelper(other), "D9-identity", fmt.Sprintf("%s:parent-key#%d", fnKey(fn), na), p.Pos(bo.Pos()), "parent coordinates compared with mavenutil.ProjectKey(candidate)", "a candidate parent POM is identified by its raw ProjectKey instead of mavenutil.ProjectKey(candidate): a local parent that inherits its groupId/version is accepted when reading but rejected when writing (or vice versa), so updates to requirements declared there are reported as written while the parent file is left untouched")
				return
			}
			// (b)
			isMethod := func(v ssa.Value, name string) bool {
				c, _ := callValue(v)
				if c == nil || c.Call.StaticCallee() == nil || c.Call.StaticCallee().Name() != name {
					return false
				}
				rcv := c.Call.StaticCallee().Signature.Recv()
				if rcv == nil {
					return false
				}
				n := namedOf(rcv.Type())
				return n != nil && strings.Contains(n.Obj().Name(), "Dependenc")
			}
			if isMethod(bo.X, "Key") && isMethod(bo.Y, "Key") {
				nb++
				r.OK("D9-identity", fmt.Sprintf("%s:dependency-key#%d", fnKey(fn), nb), p.Pos(bo.Pos()), "dependencies matched on Key()")
			}
			if isMethod(bo.X, "Name") && isMethod(bo.Y, "Name") {
				nb++
				r.Fail("D9-identity", fmt.Sprintf("%s:dependency-name#%d", fnKey(fn), nb), p.Pos(bo.Pos()), "two dependencies are matched on Name() (group:artifact) only: variants that differ in type or classifier are taken for the same requirement, so an update lands on the wrong entry and the addressed one keeps its old version")
			}
		})
	}
	r.Instances("D9-identity", "parent-coordinate comparisons", na, 3)
	r.Instances("D9-identity", "dependency identity comparisons", nb, 1)
}

// c13ParentOrigin: while walking the local parent POMs, the writer opens a file, files that file's
// requirements and properties under an origin built from a path, and remembers a path to write the
// file back to. All three must be the same path value; an origin built from the referencing file's
// path is never looked up, so patches that belong to the parent are silently dropped.
func c13ParentOrigin(p *Prog, r *Report, rule string) {
	fn := p.Func("guidedremediation/internal/manifest/maven", "readWriter.Write")
	if fn == nil {
		r.Undecided(rule, "anchor:maven.readWriter.Write", "-", "not found")
		return
	}
	// the parent walk is the loop that contains the mavenOrigin call
	var walkHdr *ssa.BasicBlock
	forEachInstr(fn, func(b *ssa.BasicBlock, _ int, in ssa.Instruction) {
		if c, ok := in.(*ssa.Call); ok && c.Call.StaticCallee() != nil && c.Call.StaticCallee().Name() == "mavenOrigin" && inLoop(b) {
			walkHdr = loopHeaderOf(b)
		}
	})
	var opened ssa.Value
	var openBlk *ssa.BasicBlock
	forEachInstr(fn, func(b *ssa.BasicBlock, _ int, in ssa.Instruction) {
		c, ok := in.(*ssa.Call)
		if ok && c.Call.IsInvoke() && c.Call.Method.Name() == "Open" && walkHdr != nil && loopHeaderOf(b) == walkHdr {
			opened = c.Call.Args[0]
			openBlk = b
		}
	})
	site := "maven.readWriter.Write"
	if opened == nil {
		r.Fail(rule, site+":open", p.Pos(fn.Pos()), "the writer no longer opens the local parent POMs in a loop")
		return
	}
	n := 0
	forEachInstr(fn, func(b *ssa.BasicBlock, _ int, in ssa.Instruction) {
		c, ok := in.(*ssa.Call)
		if !ok || c.Call.StaticCallee() == nil || c.Call.StaticCallee().Name() != "mavenOrigin" || loopHeaderOf(b) != loopHeaderOf(openBlk) {
			return
		}
		n++
		args := flattenVariadic(c.Call.Args)
		okP := false
		for _, a := range args {
			if a == opened {
				okP = true
			}
		}
		r.Check(okP, rule, site+":origin-path", p.Pos(c.Pos()), "origin built from the path of the file just opened", "the origin under which a parent POM's requirements are filed is not built from the path of the parent file that was opened (e.g. from the referencing file's path): patches for requirements declared in the parent are never applied and the parent is written back unchanged, while the update is reported as done")
	})
	r.Instances(rule, "parent origins built while walking local parents", n, 1)
	// and the same path is appended to the list of files to write
	okA := false
	forEachInstr(fn, func(b *ssa.BasicBlock, _ int, in ssa.Instruction) {
		c, ok := in.(*ssa.Call)
		if !ok || !isCallTo(c, "builtin", "", "append") || loopHeaderOf(b) != loopHeaderOf(openBlk) {
			return
		}
		if sl, ok := c.Type().Underlying().(*types.Slice); ok {
			if bt, ok := sl.Elem().Underlying().(*types.Basic); ok && bt.Kind() == types.String {
				for _, a := range flattenVariadic(c.Call.Args[1:]) {
					if a == opened {
						okA = true
					}
				}
			}
		}
	})
	r.Check(okA, rule, site+":written-path", p.Pos(fn.Pos()), "the opened path is remembered for writing", "the path remembered for writing a parent POM back is not the path it was opened from")
}
