package main

import (
	"fmt"
	"go/constant"
	"go/token"
	"go/types"
	"sort"
	"strings"
	"unicode/utf8"

	"golang.org/x/tools/go/ssa"
)

// ---------- callee references ----------

// CallRef names a callee independent of how it is called (static call, interface invoke,
// bound-method closure). Pkg is the full package path, Recv the receiver's named type ("" for
// package-level functions).
type CallRef struct{ Pkg, Recv, Name string }

func (c CallRef) String() string {
	p := rel(c.Pkg)
	if !strings.HasPrefix(c.Pkg, modPath) {
		p = c.Pkg
	}
	if c.Recv != "" {
		return p + "." + c.Recv + "." + c.Name
	}
	return p + "." + c.Name
}

func namedOf(t types.Type) *types.Named {
	for {
		switch tt := t.(type) {
		case *types.Pointer:
			t = tt.Elem()
		case *types.Named:
			return tt
		case *types.Alias:
			t = types.Unalias(tt)
		default:
			return nil
		}
	}
}

func refOfFunc(f *types.Func) CallRef {
	if f == nil {
		return CallRef{}
	}
	r := CallRef{Name: f.Name()}
	if f.Pkg() != nil {
		r.Pkg = f.Pkg().Path()
	}
	if sig, ok := f.Type().(*types.Signature); ok && sig.Recv() != nil {
		if n := namedOf(sig.Recv().Type()); n != nil {
			r.Recv = n.Obj().Name()
			if n.Obj().Pkg() != nil {
				r.Pkg = n.Obj().Pkg().Path()
			}
		} else {
			r.Recv = "(iface)"
		}
	}
	return r
}

// refOf resolves the callee of a call through type information.
func refOf(c *ssa.CallCommon) CallRef {
	if c.IsInvoke() {
		return refOfFunc(c.Method)
	}
	if fn := c.StaticCallee(); fn != nil {
		return refOfSSAFunc(fn)
	}
	if b, ok := c.Value.(*ssa.Builtin); ok {
		return CallRef{Pkg: "builtin", Name: b.Name()}
	}
	// closure / function value: try to resolve
	if fn := funcValue(c.Value); fn != nil {
		return refOfSSAFunc(fn)
	}
	return CallRef{}
}

func refOfSSAFunc(fn *ssa.Function) CallRef {
	if fn == nil {
		return CallRef{}
	}
	if o := fn.Origin(); o != nil {
		fn = o
	}
	if obj, ok := fn.Object().(*types.Func); ok && obj != nil {
		return refOfFunc(obj)
	}
	// synthetic wrappers / bound methods
	if fn.Synthetic != "" {
		if t := unwrapSynthetic(fn); t != nil && t != fn {
			return refOfSSAFunc(t)
		}
	}
	pk := ""
	if p := fnPkg(fn); p != nil {
		pk = p.Path()
	}
	return CallRef{Pkg: pk, Name: fn.Name()}
}

// unwrapSynthetic returns the function a bound-method closure or thunk forwards to.
func unwrapSynthetic(fn *ssa.Function) *ssa.Function {
	if fn.Blocks == nil {
		return nil
	}
	var target *ssa.Function
	n := 0
	for _, b := range fn.Blocks {
		for _, in := range b.Instrs {
			if c, ok := in.(ssa.CallInstruction); ok {
				if _, isB := c.Common().Value.(*ssa.Builtin); isB {
					continue
				}
				n++
				if t := c.Common().StaticCallee(); t != nil {
					target = t
				}
			}
		}
	}
	if n == 1 {
		return target
	}
	return nil
}

// funcValue resolves a value of function type to the source function it denotes, following
// closures, bound-method wrappers and trivial phis. nil when not statically known.
func funcValue(v ssa.Value) *ssa.Function {
	switch x := v.(type) {
	case *ssa.Function:
		if x.Synthetic != "" {
			if t := unwrapSynthetic(x); t != nil {
				return t
			}
		}
		return x
	case *ssa.MakeClosure:
		return funcValue(x.Fn)
	case *ssa.ChangeType:
		return funcValue(x.X)
	case *ssa.MakeInterface:
		return funcValue(x.X)
	}
	return nil
}

func (c CallRef) is(pkg, recv, name string) bool {
	return c.Name == name && c.Recv == recv && (c.Pkg == pkg || (strings.HasPrefix(pkg, "./") && c.Pkg == modPath+pkg[1:]) || (pkg == "." && c.Pkg == modPath))
}

// fp turns a module-relative package path into a full one.
func fp(relPath string) string {
	if relPath == "" || relPath == "." {
		return modPath
	}
	return modPath + "/" + relPath
}

// callOf returns the CallCommon if the instruction is a call/go/defer.
func callOf(in ssa.Instruction) *ssa.CallCommon {
	if c, ok := in.(ssa.CallInstruction); ok {
		return c.Common()
	}
	return nil
}

func isCallTo(in ssa.Instruction, pkg, recv, name string) bool {
	c := callOf(in)
	if c == nil {
		return false
	}
	return refOf(c).is(pkg, recv, name)
}

// forEachInstr visits every instruction of fn (not of nested anonymous functions).
func forEachInstr(fn *ssa.Function, f func(b *ssa.BasicBlock, i int, in ssa.Instruction)) {
	for _, b := range fn.Blocks {
		for i, in := range b.Instrs {
			f(b, i, in)
		}
	}
}

// withAnon returns fn and all functions nested in it.
func withAnon(fn *ssa.Function) []*ssa.Function {
	return withAnonSeen(fn, map[*ssa.Function]bool{})
}

// withAnonSeen: fn, its function literals, and — since a helper with a defer, labels or recursion is
// not inlined by the normalisation — the new (not in the inventory) first-party functions they call
// statically, transitively. Together they are "the code of fn" for rules that ask whether fn does
// something at all.
func withAnonSeen(fn *ssa.Function, seen map[*ssa.Function]bool) []*ssa.Function {
	if fn == nil || seen[fn] {
		return nil
	}
	seen[fn] = true
	out := []*ssa.Function{fn}
	for _, a := range fn.AnonFuncs {
		out = append(out, withAnonSeen(a, seen)...)
	}
	for _, b := range fn.Blocks {
		for _, in := range b.Instrs {
			c := callOf(in)
			if c == nil {
				continue
			}
			if cal := c.StaticCallee(); cal != nil && len(cal.Blocks) > 0 && isNewFunc(cal) {
				out = append(out, withAnonSeen(cal, seen)...)
			}
		}
	}
	return out
}

// isNewFunc: a first-party declared function or method that the inventory of the pinned tree does not list.
func isNewFunc(fn *ssa.Function) bool {
	if fn == nil || fn.Pkg == nil || fn.Parent() != nil || fn.Synthetic != "" || fn.Object() == nil {
		return false
	}
	path := fn.Pkg.Pkg.Path()
	if !strings.HasPrefix(path, modPath) {
		return false
	}
	loadInventory()
	recv := ""
	if r := fn.Signature.Recv(); r != nil {
		if n := namedOf(r.Type()); n != nil {
			recv = n.Obj().Name()
		}
	}
	if inventory[path+"."+recv+"."+fn.Name()] {
		return false
	}
	// a function of the pinned tree that changed between method and plain function is not new
	for k := range inventory {
		if strings.HasPrefix(k, path+".") && strings.HasSuffix(k, "."+fn.Name()) && !strings.Contains(k, "$") {
			rest := strings.TrimSuffix(strings.TrimPrefix(k, path+"."), "."+fn.Name())
			if !strings.Contains(rest, ".") && !strings.Contains(rest, "/") {
				return false
			}
		}
	}
	return true
}

// callsTo lists the call instructions in fn whose callee matches.
func callsTo(fn *ssa.Function, pkg, recv, name string) []ssa.CallInstruction {
	var out []ssa.CallInstruction
	forEachInstr(fn, func(_ *ssa.BasicBlock, _ int, in ssa.Instruction) {
		if isCallTo(in, pkg, recv, name) {
			out = append(out, in.(ssa.CallInstruction))
		}
	})
	return out
}

// ---------- field access ----------

// fieldOf: if v is a FieldAddr/Field selecting a field of named struct type, returns (structName, fieldName, base).
func fieldOf(v ssa.Value) (string, string, ssa.Value, bool) {
	switch x := v.(type) {
	case *ssa.FieldAddr:
		st, n := structOf(x.X.Type())
		if st == nil {
			return "", "", nil, false
		}
		name := ""
		if n != nil {
			name = n.Obj().Name()
		}
		return name, st.Field(x.Field).Name(), x.X, true
	case *ssa.Field:
		st, n := structOf(x.X.Type())
		if st == nil {
			return "", "", nil, false
		}
		name := ""
		if n != nil {
			name = n.Obj().Name()
		}
		return name, st.Field(x.Field).Name(), x.X, true
	}
	return "", "", nil, false
}

func structOf(t types.Type) (*types.Struct, *types.Named) {
	if p, ok := t.Underlying().(*types.Pointer); ok {
		t = p.Elem()
	}
	n := namedOf(t)
	st, _ := t.Underlying().(*types.Struct)
	return st, n
}

// loadsField reports whether v is (a load of) field `field` of struct type `stype`
// (through any base expression).
func loadsField(v ssa.Value, stype, field string) bool {
	if u, ok := v.(*ssa.UnOp); ok && u.Op == token.MUL {
		v = u.X
	}
	s, f, _, ok := fieldOf(v)
	return ok && s == stype && f == field
}

// ---------- constants ----------

func constInt(v ssa.Value) (int64, bool) {
	c, ok := v.(*ssa.Const)
	if !ok || c.Value == nil {
		if cv, ok2 := v.(*ssa.Convert); ok2 {
			return constInt(cv.X)
		}
		return 0, false
	}
	if c.Value.Kind() != constant.Int {
		return 0, false
	}
	n, exact := constant.Int64Val(c.Value)
	return n, exact
}

func constString(v ssa.Value) (string, bool) {
	c, ok := v.(*ssa.Const)
	if !ok || c.Value == nil || c.Value.Kind() != constant.String {
		return "", false
	}
	return constant.StringVal(c.Value), true
}

func isNilConst(v ssa.Value) bool {
	c, ok := v.(*ssa.Const)
	return ok && c.Value == nil
}

func constBool(v ssa.Value) (bool, bool) {
	c, ok := v.(*ssa.Const)
	if !ok || c.Value == nil || c.Value.Kind() != constant.Bool {
		return false, false
	}
	return constant.BoolVal(c.Value), true
}

// ---------- CFG queries ----------

type Edge struct {
	From *ssa.BasicBlock
	Succ int // index into From.Succs
}

func (e Edge) To() *ssa.BasicBlock { return e.From.Succs[e.Succ] }

type edgeSet map[Edge]bool

// reachable computes the blocks reachable from start without using cut edges or entering
// blocked blocks.
func reachable(start *ssa.BasicBlock, cut edgeSet, blocked map[*ssa.BasicBlock]bool) map[*ssa.BasicBlock]bool {
	seen := map[*ssa.BasicBlock]bool{}
	if blocked[start] {
		return seen
	}
	stack := []*ssa.BasicBlock{start}
	seen[start] = true
	for len(stack) > 0 {
		b := stack[len(stack)-1]
		stack = stack[:len(stack)-1]
		for i, s := range b.Succs {
			if cut[Edge{b, i}] || blocked[s] || seen[s] {
				continue
			}
			seen[s] = true
			stack = append(stack, s)
		}
	}
	return seen
}

// CondPred classifies an If condition: matched, and whether the condition value being TRUE means
// the abstract guard G holds (pos=true) or that G does not hold (pos=false).
type CondPred func(cond ssa.Value) (matched bool, pos bool)

// stripNot peels `!x` (and x == false / x != true forms) returning the inner value and whether
// polarity flipped.
func stripNot(v ssa.Value) (ssa.Value, bool) {
	flip := false
	for {
		switch x := v.(type) {
		case *ssa.UnOp:
			if x.Op == token.NOT {
				v = x.X
				flip = !flip
				continue
			}
		case *ssa.BinOp:
			if x.Op == token.EQL || x.Op == token.NEQ {
				if b, ok := constBool(x.Y); ok {
					v = x.X
					if (x.Op == token.EQL) != b {
						flip = !flip
					}
					continue
				}
				if b, ok := constBool(x.X); ok {
					v = x.Y
					if (x.Op == token.EQL) != b {
						flip = !flip
					}
					continue
				}
			}
		}
		return v, flip
	}
}

// guardEdges returns, for every If in fn whose condition matches, the edge taken when G holds
// (holds) and the edge taken when G does not hold (fails).
func guardEdges(fn *ssa.Function, pred CondPred) (holds, fails []Edge) {
	for _, b := range fn.Blocks {
		if len(b.Instrs) == 0 {
			continue
		}
		ifi, ok := b.Instrs[len(b.Instrs)-1].(*ssa.If)
		if !ok {
			continue
		}
		for k := 0; k < 2; k++ {
			isHold, isFail := false, false
			for _, f := range impliedFacts(ifi.Cond, k == 0, 0) {
				m, pos := pred(f.v)
				if !m {
					continue
				}
				if pos == f.val {
					isHold = true
				} else {
					isFail = true
				}
			}
			if isHold && !isFail {
				holds = append(holds, Edge{b, k})
			}
			if isFail && !isHold {
				fails = append(fails, Edge{b, k})
			}
		}
	}
	return
}

type branchFact struct {
	v   ssa.Value
	val bool
}

// impliedFacts: what taking the branch "cond == outcome" says about the atomic conditions. Besides
// the condition itself (negations peeled) this looks through the boolean phi that `a && b` / `a || b`
// become when they are not compiled to branches (a `case a && b:` of a tagless switch, a condition
// bound to a local first): when only one incoming edge of the phi can carry the outcome, the branch
// implies that edge's value and the tests that lead to the edge's source block.
func impliedFacts(cond ssa.Value, outcome bool, depth int) []branchFact {
	inner, flip := stripNot(cond)
	if flip {
		outcome = !outcome
	}
	out := []branchFact{{inner, outcome}}
	// errors.Is(x, Sentinel) held: x is not nil (a package-level sentinel error is never nil)
	if c, isC := inner.(*ssa.Call); isC && outcome && len(c.Call.Args) == 2 && refOf(c.Common()).is("errors", "", "Is") {
		if ld, isL := c.Call.Args[1].(*ssa.UnOp); isL && ld.Op == token.MUL {
			if _, isG := ld.X.(*ssa.Global); isG {
				out = append(out, branchFact{&ssa.BinOp{Op: token.NEQ, X: c.Call.Args[0], Y: ssa.NewConst(nil, c.Call.Args[0].Type())}, true})
			}
		}
	}
	ph, ok := inner.(*ssa.Phi)
	if !ok || depth > 3 {
		return out
	}
	if bt, isB := ph.Type().Underlying().(*types.Basic); !isB || bt.Kind() != types.Bool {
		return out
	}
	cand := -1
	for i, e := range ph.Edges {
		if c, isC := constBool(e); isC && c != outcome {
			continue
		}
		if cand >= 0 {
			return out // more than one incoming edge can carry the outcome
		}
		cand = i
	}
	if cand < 0 {
		return out
	}
	if _, isC := constBool(ph.Edges[cand]); !isC {
		out = append(out, impliedFacts(ph.Edges[cand], outcome, depth+1)...)
	}
	// the tests on the way to the source block of that edge
	cur := ph.Block().Preds[cand]
	for d := 0; d < 8; d++ {
		if len(cur.Preds) != 1 {
			break
		}
		p := cur.Preds[0]
		pif := blockIf(p)
		if pif == nil || p == cur {
			break
		}
		idx := -1
		for i, sc := range p.Succs {
			if sc == cur {
				idx = i
			}
		}
		if idx < 0 || p.Succs[0] == p.Succs[1] {
			break
		}
		// only the tests of the short-circuit expression itself: their other exit jumps to the phi
		if p.Succs[1-idx] != ph.Block() {
			break
		}
		out = append(out, impliedFacts(pif.Cond, idx == 0, depth+1)...)
		cur = p
	}
	return out
}

// onlyVia reports whether block target can be reached from entry only through one of the
// given edges (edge dominance): cut them and test reachability. If target is unreachable even
// without cutting (dead code) it is vacuously true.
func onlyVia(fn *ssa.Function, target *ssa.BasicBlock, edges []Edge) bool {
	if len(fn.Blocks) == 0 {
		return false
	}
	cut := edgeSet{}
	for _, e := range edges {
		cut[e] = true
	}
	return !reachable(fn.Blocks[0], cut, nil)[target]
}

// Point is an instruction position.
type Point struct {
	B *ssa.BasicBlock
	I int
}

func pointOf(in ssa.Instruction) Point {
	b := in.Block()
	for i, x := range b.Instrs {
		if x == in {
			return Point{b, i}
		}
	}
	return Point{b, -1}
}

// findPath searches for an execution path that starts right AFTER `from`, never executes an
// instruction for which avoid() is true, never takes a cut edge, and reaches an instruction for
// which goal() is true. Returns the witness (block indices) or nil.
func findPath(from Point, goal, avoid func(ssa.Instruction) bool, cut edgeSet) []string {
	return searchPath(from, -1, goal, avoid, cut)
}

// searchPath is the one path search. Along a path it keeps (a) what is known about the nil-ness of
// the values that are compared with nil and are phis or feed them (a variable assigned in several
// branches and tested after they join), and (b) the constants boolean phis take (a flag set in one
// branch and tested later; the `a || b` of a `case a || b:`): an edge that contradicts either is
// not followed. firstSucc >= 0 starts the search by taking that successor edge of from.B.
func searchPath(from Point, firstSucc int, goal, avoid func(ssa.Instruction) bool, cut edgeSet) []string {
	if from.B == nil {
		return nil
	}
	rel := nilRelevant(from.B.Parent())
	type item struct {
		b     *ssa.BasicBlock
		from  int
		facts map[ssa.Value]bool // value -> known to be non-nil (true) / nil (false) on this path
		vals  map[*ssa.Phi]bool  // boolean phi -> the constant it holds on this path
		prev  *item
	}
	scan := func(it *item) (hit bool, blocked bool) {
		for i := it.from; i < len(it.b.Instrs); i++ {
			in := it.b.Instrs[i]
			if avoid != nil && avoid(in) {
				return false, true
			}
			if goal(in) {
				return true, false
			}
		}
		return false, false
	}
	witness := func(it *item) []string {
		var w []string
		for x := it; x != nil; x = x.prev {
			w = append([]string{fmt.Sprintf("b%d", x.b.Index)}, w...)
		}
		return w
	}
	encode := func(m map[ssa.Value]bool, bv map[*ssa.Phi]bool) string {
		if len(m) == 0 && len(bv) == 0 {
			return ""
		}
		var ks []string
		for k, v := range m {
			ks = append(ks, fmt.Sprintf("%s=%v", k.Name(), v))
		}
		for k, v := range bv {
			ks = append(ks, fmt.Sprintf("%s:%v", k.Name(), v))
		}
		sort.Strings(ks)
		return strings.Join(ks, ",")
	}
	type key struct {
		b *ssa.BasicBlock
		f string
	}
	start := &item{b: from.B, from: from.I + 1, vals: map[*ssa.Phi]bool{}}
	if len(rel) > 0 {
		// what the branches that dominate the starting block say about nil-ness
		start.facts = map[ssa.Value]bool{}
		for _, dc := range dominatingConds(from.B) {
			if v, nonNil, ok := nilFact(dc.cond, dc.val); ok && rel[v] {
				start.facts[v] = nonNil
			}
		}
	}
	seen := map[key]bool{}
	queue := []*item{start}
	for len(queue) > 0 {
		it := queue[0]
		queue = queue[1:]
		hit, blocked := scan(it)
		if hit {
			return witness(it)
		}
		if blocked {
			continue
		}
		ifi := blockIf(it.b)
		for i, s := range it.b.Succs {
			if cut[Edge{it.b, i}] {
				continue
			}
			if it == start && firstSucc >= 0 {
				if i != firstSucc {
					continue
				}
			} else if ifi != nil {
				// a branch on a boolean phi whose constant the path knows
				inner, flip := stripNot(ifi.Cond)
				if ph, ok := inner.(*ssa.Phi); ok {
					if v, known := it.vals[ph]; known && (v != flip) != (i == 0) {
						continue
					}
				}
			}
			var nf map[ssa.Value]bool
			pi := -1
			for k, pr := range s.Preds {
				if pr == it.b {
					pi = k
				}
			}
			if ifi != nil {
				// a nil test of a value that is what it is on every path (a fresh error, a sentinel)
				contradicted := false
				for _, f := range impliedFacts(ifi.Cond, i == 0, 0) {
					if v, nonNil, ok := nilFact(f.v, f.val); ok {
						if st, known := nilStateOf(v, nil); known && st != nonNil {
							contradicted = true
						}
					}
				}
				if contradicted {
					continue
				}
			}
			if len(rel) > 0 {
				// an edge that contradicts what the path already knows about a value is infeasible
				feasible := true
				nf = map[ssa.Value]bool{}
				for k, v := range it.facts {
					nf[k] = v
				}
				if ifi != nil {
					for _, f := range impliedFacts(ifi.Cond, i == 0, 0) {
						v, nonNil, ok := nilFact(f.v, f.val)
						if !ok || !rel[v] {
							continue
						}
						if known, has := it.facts[v]; has && known != nonNil {
							feasible = false
						}
						nf[v] = nonNil
					}
				}
				if !feasible {
					continue
				}
				// entering s: its phis take the value of this edge, everything else defined in s is new
				upd := map[ssa.Value]*bool{}
				for _, in := range s.Instrs {
					v, isV := in.(ssa.Value)
					if !isV || !rel[v] {
						continue
					}
					upd[v] = nil
					if ph, isPhi := in.(*ssa.Phi); isPhi && pi >= 0 {
						if st, ok := nilStateOf(ph.Edges[pi], nf); ok {
							b := st
							upd[v] = &b
						}
					}
				}
				for v, st := range upd {
					if st == nil {
						delete(nf, v)
					} else {
						nf[v] = *st
					}
				}
			}
			// the boolean phis of s
			nv := map[*ssa.Phi]bool{}
			for kk, vv := range it.vals {
				nv[kk] = vv
			}
			for _, in := range s.Instrs {
				ph, ok := in.(*ssa.Phi)
				if !ok {
					break
				}
				if b, isB := ph.Type().Underlying().(*types.Basic); !isB || b.Kind() != types.Bool {
					continue
				}
				delete(nv, ph)
				if pi >= 0 {
					e := ph.Edges[pi]
					if c, ok := e.(*ssa.Const); ok && c.Value != nil && c.Value.Kind() == constant.Bool {
						nv[ph] = constant.BoolVal(c.Value)
					} else if p2, ok := e.(*ssa.Phi); ok {
						if v, known := it.vals[p2]; known {
							nv[ph] = v
						}
					}
				}
			}
			k := key{s, encode(nf, nv)}
			if seen[k] {
				continue
			}
			seen[k] = true
			queue = append(queue, &item{s, 0, nf, nv, it})
		}
	}
	return nil
}

// nilFact: cond == val says that v is non-nil (nonNil=true) or nil.
func nilFact(cond ssa.Value, val bool) (v ssa.Value, nonNil, ok bool) {
	b, isB := cond.(*ssa.BinOp)
	if !isB || (b.Op != token.EQL && b.Op != token.NEQ) {
		return nil, false, false
	}
	switch {
	case isNilConst(b.Y):
		v = b.X
	case isNilConst(b.X):
		v = b.Y
	default:
		return nil, false, false
	}
	return v, (b.Op == token.NEQ) == val, true
}

// nilStateOf: what is known about e — a constant, a freshly made value, or a value the path has a fact about.
func nilStateOf(e ssa.Value, facts map[ssa.Value]bool) (nonNil, ok bool) {
	if isNilConst(e) {
		return false, true
	}
	if st, has := facts[e]; has {
		return st, true
	}
	switch x := e.(type) {
	case *ssa.Alloc, *ssa.MakeInterface, *ssa.MakeClosure, *ssa.MakeMap, *ssa.MakeSlice, *ssa.MakeChan, *ssa.Function:
		return true, true
	case *ssa.Call:
		rf := refOf(x.Common())
		if rf.is("fmt", "", "Errorf") || rf.is("errors", "", "New") {
			return true, true
		}
	case *ssa.UnOp:
		if g, isG := x.X.(*ssa.Global); isG && x.Op == token.MUL && sentinelNonNil(g) {
			return true, true
		}
	}
	return false, false
}

// sentinelNonNil: g is a package-level variable that the package initialiser sets once, to a fresh
// error (errors.New / fmt.Errorf / a composite value), and that nothing else in the program writes
// or takes the address of — a sentinel such as ErrFileReadLimitExceeded. Reading it gives non-nil.
var sentinelCache = map[*ssa.Global]bool{}

func sentinelNonNil(g *ssa.Global) bool {
	if v, ok := sentinelCache[g]; ok {
		return v
	}
	sentinelCache[g] = false
	if g.Pkg == nil || activeProg == nil || activeProg.SSA != g.Pkg.Prog {
		delete(sentinelCache, g)
		return false
	}
	fns := append([]*ssa.Function{}, activeProg.allFns...)
	if ini := g.Pkg.Func("init"); ini != nil {
		fns = append(fns, withAnon(ini)...)
	}
	ok, nInit := true, 0
	for _, fn := range fns {
		forEachInstr(fn, func(_ *ssa.BasicBlock, _ int, in ssa.Instruction) {
			for _, op := range in.Operands(nil) {
				if *op != ssa.Value(g) {
					continue
				}
				switch x := in.(type) {
				case *ssa.UnOp:
					if x.Op != token.MUL {
						ok = false
					}
				case *ssa.Store:
					if x.Addr != ssa.Value(g) || fn.Name() != "init" || fn.Pkg != g.Pkg {
						ok = false
						return
					}
					nInit++
					if nn, known := nilStateOf(x.Val, nil); !known || !nn {
						ok = false
					}
				default:
					ok = false
				}
			}
		})
	}
	sentinelCache[g] = ok && nInit == 1
	return sentinelCache[g]
}

// nilRelevant: the values of fn whose nil-ness a path search tracks — those compared with nil that are
// phis or feed such phis (a variable assigned in several branches and tested after they join).
var nilRelevantCache = map[*ssa.Function]map[ssa.Value]bool{}

func nilRelevant(fn *ssa.Function) map[ssa.Value]bool {
	if fn == nil {
		return nil
	}
	if r, ok := nilRelevantCache[fn]; ok {
		return r
	}
	rel := map[ssa.Value]bool{}
	var add func(v ssa.Value, d int)
	add = func(v ssa.Value, d int) {
		if v == nil || rel[v] || d > 6 {
			return
		}
		if _, isC := v.(*ssa.Const); isC {
			return
		}
		rel[v] = true
		if ph, ok := v.(*ssa.Phi); ok {
			for _, e := range ph.Edges {
				add(e, d+1)
			}
		}
	}
	hasPhi := false
	tested := map[ssa.Value]int{}
	forEachInstr(fn, func(_ *ssa.BasicBlock, _ int, in ssa.Instruction) {
		b, ok := in.(*ssa.BinOp)
		if !ok {
			return
		}
		if v, _, ok := nilFact(b, true); ok {
			tested[v]++
			if _, isPhi := v.(*ssa.Phi); isPhi {
				hasPhi = true
				add(v, 0)
			}
		}
	})
	// a value tested twice (the caller's `if err != nil` around an inlined helper's own): the second
	// test's outcome is the first's
	for _, n := range tested {
		if n > 1 {
			hasPhi = true
		}
	}
	if !hasPhi {
		rel = nil
	} else {
		// the other tested values take part too (a fact about a phi's operand becomes a fact about the phi)
		forEachInstr(fn, func(_ *ssa.BasicBlock, _ int, in ssa.Instruction) {
			if b, ok := in.(*ssa.BinOp); ok {
				if v, _, ok := nilFact(b, true); ok {
					add(v, 0)
				}
			}
		})
	}
	nilRelevantCache[fn] = rel
	return rel
}

// isReturn / exit helpers
func isReturn(in ssa.Instruction) bool { _, ok := in.(*ssa.Return); return ok }
func isPanic(in ssa.Instruction) bool  { _, ok := in.(*ssa.Panic); return ok }

// entryPoint is the position "before the first instruction" of fn.
func entryPoint(fn *ssa.Function) Point { return Point{fn.Blocks[0], -1} }

// ---------- value derivation (backward closure) ----------

type deriveOpts struct {
	// throughCall decides whether the result of a call derives from its arguments.
	throughCall func(c *ssa.CallCommon) bool
	// followStores: loads from an Alloc / FieldAddr also derive from every value stored to the
	// same Alloc / same struct field in the same function (flow-insensitive).
	followStores bool
	maxDepth     int
}

func propagatingCall(c *ssa.CallCommon) bool {
	r := refOf(c)
	switch r.Pkg {
	case "fmt":
		return r.Name == "Errorf" || r.Name == "Sprintf" || r.Name == "Sprint"
	case "errors":
		return r.Name == "Join" || r.Name == "Unwrap"
	case "path/filepath", "path":
		return true
	case "strings":
		return true
	case "builtin":
		return r.Name == "append"
	}
	return false
}

// derivesFrom reports whether v (transitively) derives from a value satisfying src.
func derivesFrom(v ssa.Value, src func(ssa.Value) bool, o deriveOpts) bool {
	if o.maxDepth == 0 {
		o.maxDepth = 40
	}
	seen := map[ssa.Value]bool{}
	var rec func(v ssa.Value, d int) bool
	rec = func(v ssa.Value, d int) bool {
		if v == nil || seen[v] || d > o.maxDepth {
			return false
		}
		seen[v] = true
		if src(v) {
			return true
		}
		switch x := v.(type) {
		case *ssa.Phi:
			for _, e := range x.Edges {
				if rec(e, d+1) {
					return true
				}
			}
		case *ssa.UnOp:
			if x.Op == token.MUL && o.followStores {
				for _, s := range storesTo(x.X) {
					if rec(s, d+1) {
						return true
					}
				}
			}
			return rec(x.X, d+1)
		case *ssa.ChangeType:
			return rec(x.X, d+1)
		case *ssa.Convert:
			return rec(x.X, d+1)
		case *ssa.ChangeInterface:
			return rec(x.X, d+1)
		case *ssa.MakeInterface:
			return rec(x.X, d+1)
		case *ssa.TypeAssert:
			return rec(x.X, d+1)
		case *ssa.Extract:
			return rec(x.Tuple, d+1)
		case *ssa.Slice:
			return rec(x.X, d+1)
		case *ssa.Field:
			return rec(x.X, d+1)
		case *ssa.FieldAddr:
			return rec(x.X, d+1)
		case *ssa.Index:
			return rec(x.X, d+1)
		case *ssa.IndexAddr:
			return rec(x.X, d+1)
		case *ssa.Lookup:
			return rec(x.X, d+1)
		case *ssa.BinOp:
			return rec(x.X, d+1) || rec(x.Y, d+1)
		case *ssa.Call:
			if o.throughCall != nil && o.throughCall(x.Common()) {
				for _, a := range x.Common().Args {
					if rec(a, d+1) {
						return true
					}
				}
				if x.Common().IsInvoke() && rec(x.Common().Value, d+1) {
					return true
				}
			}
		case *ssa.Alloc:
			if o.followStores {
				for _, s := range storesTo(x) {
					if rec(s, d+1) {
						return true
					}
				}
			}
		}
		return false
	}
	return rec(v, 0)
}

// storesTo lists the values stored (anywhere in the function) to the same address expression:
// the same Alloc, or the same field of the same struct type.
func storesTo(addr ssa.Value) []ssa.Value {
	var fn *ssa.Function
	if in, ok := addr.(ssa.Instruction); ok {
		fn = in.Parent()
	}
	if fn == nil {
		return nil
	}
	var out []ssa.Value
	sN, fN, _, isField := fieldOf(addr)
	forEachInstr(fn, func(_ *ssa.BasicBlock, _ int, in ssa.Instruction) {
		st, ok := in.(*ssa.Store)
		if !ok {
			return
		}
		if st.Addr == addr {
			out = append(out, st.Val)
			return
		}
		// element / field of a local array or struct
		switch a := st.Addr.(type) {
		case *ssa.IndexAddr:
			if a.X == addr {
				out = append(out, st.Val)
				return
			}
		case *ssa.FieldAddr:
			if a.X == addr {
				out = append(out, st.Val)
				return
			}
		}
		if isField {
			if s2, f2, _, ok2 := fieldOf(st.Addr); ok2 && s2 == sN && f2 == fN {
				out = append(out, st.Val)
			}
		}
	})
	return out
}

// ---------- misc ----------

// blockOfIf returns the If terminating b, if any.
func blockIf(b *ssa.BasicBlock) *ssa.If {
	if len(b.Instrs) == 0 {
		return nil
	}
	ifi, _ := b.Instrs[len(b.Instrs)-1].(*ssa.If)
	return ifi
}

// returnsOf lists the Return instructions of fn.
func returnsOf(fn *ssa.Function) []*ssa.Return {
	var out []*ssa.Return
	forEachInstr(fn, func(b *ssa.BasicBlock, _ int, in ssa.Instruction) {
		if r, ok := in.(*ssa.Return); ok && b != fn.Recover {
			out = append(out, r)
		}
	})
	return out
}

// inLoop reports whether block b lies on a cycle of fn's CFG.
func inLoop(b *ssa.BasicBlock) bool {
	seen := map[*ssa.BasicBlock]bool{}
	stack := append([]*ssa.BasicBlock{}, b.Succs...)
	for len(stack) > 0 {
		x := stack[len(stack)-1]
		stack = stack[:len(stack)-1]
		if x == b {
			return true
		}
		if seen[x] {
			continue
		}
		seen[x] = true
		stack = append(stack, x.Succs...)
	}
	return false
}

func short(s string, n int) string {
	if len(s) > n {
		// cut at a rune boundary (the renderings contain ι, φ, …)
		for n > 0 && !utf8.RuneStart(s[n]) {
			n--
		}
		return s[:n] + "…"
	}
	return s
}

// retVal returns the idx-th result of a return, looking through the "defer-spilled" form in which
// results are stored to a local and re-loaded after rundefers: the value last stored to that local
// in the same block is returned instead.
func retVal(ret *ssa.Return, idx int) ssa.Value {
	if idx >= len(ret.Results) {
		return nil
	}
	v := ret.Results[idx]
	u, ok := v.(*ssa.UnOp)
	if !ok || u.Op != token.MUL {
		return v
	}
	al, ok := u.X.(*ssa.Alloc)
	if !ok {
		return v
	}
	b := ret.Block()
	for i := len(b.Instrs) - 1; i >= 0; i-- {
		if st, ok := b.Instrs[i].(*ssa.Store); ok && st.Addr == ssa.Value(al) {
			return st.Val
		}
	}
	return v
}

// pathOutcome: one acyclic entry-to-return path of a small function: what is known about the
// abstract guards on it (guard index -> holds) and the last constant written by the tracked stores
// (set=false when the path writes none).
type pathOutcome struct {
	facts  map[int]bool
	last   int64
	set    bool
	opaque bool // the last tracked store wrote something that is not a constant on this path
	blocks []int
}

// enumOutcomes walks every acyclic path from the entry to a return (at most limit of them; ok=false
// beyond that or when the function has a loop on the way). Branches are followed with the guards'
// truth recorded from impliedFacts; a path on which one guard would have to both hold and fail is
// infeasible and dropped. Stored values that are phis of constants are resolved by the path taken.
func enumOutcomes(fn *ssa.Function, tracked func(ssa.Instruction) (ssa.Value, bool), guards []CondPred, limit int) (outs []pathOutcome, ok bool) {
	if len(fn.Blocks) == 0 {
		return nil, false
	}
	ok = true
	type state struct {
		facts  map[int]bool
		env    map[*ssa.Phi]ssa.Value
		last   int64
		set    bool
		opaque bool
		onPath map[*ssa.BasicBlock]bool
		blocks []int
	}
	var walk func(b, from *ssa.BasicBlock, st state)
	walk = func(b, from *ssa.BasicBlock, st state) {
		if !ok {
			return
		}
		if st.onPath[b] {
			return // a cycle: iterations add no new last-store/guard combination for loop-free stores
		}
		onPath := map[*ssa.BasicBlock]bool{b: true}
		for k := range st.onPath {
			onPath[k] = true
		}
		st.onPath = onPath
		st.blocks = append(append([]int{}, st.blocks...), b.Index)
		env := map[*ssa.Phi]ssa.Value{}
		for k, v := range st.env {
			env[k] = v
		}
		st.env = env
		resolve := func(v ssa.Value) ssa.Value {
			for i := 0; i < 8; i++ {
				ph, isPhi := v.(*ssa.Phi)
				if !isPhi {
					return v
				}
				nv, known := st.env[ph]
				if !known {
					return v
				}
				v = nv
			}
			return v
		}
		for _, in := range b.Instrs {
			switch x := in.(type) {
			case *ssa.Phi:
				if from != nil {
					for i, pr := range b.Preds {
						if pr == from {
							st.env[x] = resolve(x.Edges[i])
						}
					}
				}
			case *ssa.Return:
				if len(outs) >= limit {
					ok = false
					return
				}
				outs = append(outs, pathOutcome{st.facts, st.last, st.set, st.opaque, st.blocks})
				return
			default:
				if v, is := tracked(in); is {
					if k, isC := constInt(resolve(v)); isC {
						st.last, st.set, st.opaque = k, true, false
					} else {
						st.set, st.opaque = true, true
					}
				}
			}
		}
		ifi := blockIf(b)
		if ifi == nil {
			for _, s := range b.Succs {
				walk(s, b, st)
			}
			return
		}
		for k, s := range b.Succs {
			facts := map[int]bool{}
			for g, v := range st.facts {
				facts[g] = v
			}
			feasible := true
			cond := resolve(ifi.Cond)
			if c, isC := cond.(*ssa.Const); isC && c.Value != nil && c.Value.Kind() == constant.Bool {
				if constant.BoolVal(c.Value) != (k == 0) {
					continue
				}
			}
			for _, f := range impliedFacts(ifi.Cond, k == 0, 0) {
				for gi, g := range guards {
					m, pos := g(f.v)
					if !m {
						continue
					}
					holds := pos == f.val
					if old, seen := facts[gi]; seen && old != holds {
						feasible = false
					}
					facts[gi] = holds
				}
			}
			if !feasible {
				continue
			}
			st2 := st
			st2.facts = facts
			walk(s, b, st2)
		}
	}
	walk(fn.Blocks[0], nil, state{facts: map[int]bool{}, env: map[*ssa.Phi]ssa.Value{}})
	return outs, ok
}
