package main

import (
	"fmt"
	"go/token"
	"go/types"
	"os"
	"sort"
	"strings"

	"golang.org/x/tools/go/ssa"
)

func init() {
	register(&PropDef{
		ID:       "C05",
		Patterns: []string{"./artifact/image/layerscanning/trace", ".", "./artifact/image/layerscanning/image"},
		Explain: "Decided (structure of the layer-attribution algorithm): D1 consistent triple — the per-layer details list is built with Index, DiffID and Command all taken from the same chain layer (element i gets Index i), and a package's LayerDetails is always an element of that list; " +
			"D2 cache discipline — the extraction cache is keyed by (first location, layer index of the view being examined), written in exactly one place with the packages obtained for that key, and a cache hit is compared like a fresh extraction; " +
			"D3 skip discipline — an iteration of the backward scan may end without comparing packages only when the file is in none of the layer's files (the sanctioned optimisation): every other way back to the loop head passes the package comparison and records the layer as the latest scanned one; the origin assigned when the package is absent is the latest scanned layer, and element 0 when no absence was found; " +
			"D4 every earlier view is considered — the scan index starts at len-2, decreases by one and the loop is left only at index < 0, on a failed extraction, or when the origin was found; D5 the final view comes from the last chain layer and ScanContainer traces with the same chain layers. " +
			"Added in round 2: D1 additionally: every iteration appends the record it just built for its own layer, and no iteration ends without appending. Added in round 3: D6 the search through an older view's packages stops only on an entry with equal package URL and locations. Added in round 8: D10 a Layer's isEmpty is exactly the flag convertV1Layer was given (history alignment). NOT decided: that the skip is semantically valid for every history, empty-layer/history alignment, re-add semantics as values (need executions over histories).",
		Run: runC05,
		Controls: []Mutant{
			{Name: "command-from-last-layer", File: "artifact/image/layerscanning/trace/trace.go", Old: "			Command:     chainLayer.Layer().Command(),", New: "			Command:     chainLayers[len(chainLayers)-1].Layer().Command(),", Rule: "D1-triple", Site: "PopulateLayerDetails"},
			{Name: "cache-key-without-index", File: "artifact/image/layerscanning/trace/trace.go", Old: "				index:    i,\n", New: "				index:    0,\n", Rule: "D2-cache", Site: "key"},
			{Name: "empty-layer-shortcut", File: "artifact/image/layerscanning/trace/trace.go", Old: "			oldChainLayer := chainLayers[i]\n", New: "			oldChainLayer := chainLayers[i]\n			if oldChainLayer.Layer().IsEmpty() {\n				continue\n			}\n", Rule: "D3-skip", Site: "PopulateLayerDetails"},
			{Name: "scan-stops-at-layer-1", File: "artifact/image/layerscanning/trace/trace.go", Old: "		for i := len(chainLayers) - 2; i >= 0; i-- {", New: "		for i := len(chainLayers) - 2; i > 0; i-- {", Rule: "D4-all-views", Site: "PopulateLayerDetails"},
			{Name: "origin-is-current-layer", File: "artifact/image/layerscanning/trace/trace.go", Old: "				layerDetails = chainLayerDetailsList[lastScannedLayerIndex]\n				foundOrigin = true", New: "				layerDetails = chainLayerDetailsList[min(lastScannedLayerIndex, i+1)]\n				foundOrigin = true", Rule: "D3-skip", Site: "origin"},
			{Name: "first-same-name-entry-decides", File: "artifact/image/layerscanning/trace/trace.go", Old: "				if !areLocationsEqual(oldPKG.Locations, pkg.Locations) {\n					continue\n				}\n\n				foundPackage = true\n				break\n", New: "				foundPackage = areLocationsEqual(oldPKG.Locations, pkg.Locations)\n				break\n", Rule: "D6-presence", Site: "presence-loop"},
		},
	})
}

const tracePkg = "artifact/image/layerscanning/trace"

func runC05(p *Prog, r *Report) {
	r.Rule("D1-triple", "Index/DiffID/Command of a LayerDetails come from the same chain layer")
	r.Rule("D2-cache", "cache keyed by (location, layer index); single writer; hits are compared")
	r.Rule("D3-skip", "an iteration skips the comparison only for the sanctioned reason; origin = latest scanned layer")
	r.Rule("D4-all-views", "the backward scan starts at len-2 and reaches index 0")
	r.Rule("D5-same-layers", "ScanContainer scans the last chain layer and traces with the same list")
	r.Rule("D6-presence", "a package counts as present in an older view exactly when some entry there has the same package URL and locations")
	defer c05Presence(p, r)
	r.Rule("D7-view-omissions", "the views the tracer compares drop tar entries only for the sanctioned reasons (shared with C04)")
	c04OmissionsAs(p, r, "D7-view-omissions")
	r.Rule("D8-diffid-cutset", "the diff ID is cut at the algorithm prefix, not trimmed by a character set")
	cutsetDiscipline(p, r, "D8-diffid-cutset", tracePkg)
	r.Rule("D10-history-alignment", "a layer is empty exactly when the image history says so")
	layerEmptinessIsTheCallersFlag(p, r, "D10-history-alignment")
	fn := p.Func(tracePkg, "PopulateLayerDetails")
	if fn == nil {
		r.Undecided("D1-triple", "anchor:PopulateLayerDetails", "-", "not found")
		return
	}
	fa := newFA(p, r, fn)
	layers := fn.Params[2]
	// "does this layer touch the package's files?" is asked about all of the package's locations
	// (an extractor may have read a second file; a layer that rewrites only that one changes the package)
	sameValueArg(p, r, "D3-skip", "trace.PopulateLayerDetails:touch-test-on-all-locations", fn, func(c *ssa.Call) bool {
		cal := c.Call.StaticCallee()
		return cal != nil && cal.Name() == "filesExistInLayer"
	}, 1, func(v ssa.Value) bool { return loadsField(v, "Package", "Locations") }, "filesExistInLayer(layer, pkg.Locations)",
		"the test whether a layer touches the package's files is not given all of the package's locations (only the file that is re-extracted): a layer that removes or re-adds the package by rewriting another of its files is skipped as untouched, and the package is attributed to an earlier layer")
	r.Rule("D9-history-free", "attribution depends on the image being traced only: no process-wide mutable state")
	noSharedMutableState(p, r, "D9-history-free", "a per-(location, layer index) extraction cache that outlives the scan answers for the second image of a process with the first image's packages", append([]*ssa.Function{fn}, fn.AnonFuncs...), tracePkg)
	// ---- D1
	var ldAlloc *ssa.Alloc
	forEachInstr(fn, func(_ *ssa.BasicBlock, _ int, in ssa.Instruction) {
		if al, ok := in.(*ssa.Alloc); ok {
			if st, n := structOf(al.Type()); st != nil && n != nil && n.Obj().Name() == "LayerDetails" {
				ldAlloc = al
			}
		}
	})
	if ldAlloc == nil {
		r.Fail("D1-triple", fa.key+":details", p.Pos(fn.Pos()), "no LayerDetails values are built")
		return
	}
	// the chain layer element of the building loop: chainLayers[idx]
	var elem ssa.Value
	var idx ssa.Value
	fields := map[string]ssa.Value{}
	for _, ref := range *ldAlloc.Referrers() {
		if fad, ok := ref.(*ssa.FieldAddr); ok {
			_, f, _, _ := fieldOf(fad)
			for _, r2 := range *fad.Referrers() {
				if st, ok := r2.(*ssa.Store); ok {
					fields[f] = st.Val
				}
			}
		}
	}
	isElemOf := func(v ssa.Value) (ssa.Value, bool) {
		u, ok := v.(*ssa.UnOp)
		if !ok {
			return nil, false
		}
		ia, ok := u.X.(*ssa.IndexAddr)
		if !ok || ia.X != ssa.Value(layers) {
			return nil, false
		}
		return ia.Index, true
	}
	// Command: invoke Command() on invoke Layer() on chainLayers[idx]
	layerOf := func(v ssa.Value, method string) (ssa.Value, bool) {
		c, _ := callValue(v)
		if c == nil || !c.Call.IsInvoke() || c.Call.Method.Name() != method {
			return nil, false
		}
		lc, _ := callValue(c.Call.Value)
		if lc == nil || !lc.Call.IsInvoke() || lc.Call.Method.Name() != "Layer" {
			return nil, false
		}
		return isElemOf(lc.Call.Value)
	}
	if i, ok := layerOf(fields["Command"], "Command"); ok {
		idx = i
		elem = fields["Command"]
	}
	okCmd := idx != nil
	okIdx := idx != nil && fields["Index"] == idx
	okDiff := false
	if idx != nil {
		okDiff = derivesFrom(fields["DiffID"], func(v ssa.Value) bool {
			i2, ok := layerOf(v, "DiffID")
			return ok && i2 == idx
		}, deriveOpts{throughCall: func(*ssa.CallCommon) bool { return true }})
	}
	_ = elem
	r.Check(okCmd, "D1-triple", fa.key+":Command", p.Pos(ldAlloc.Pos()), "Command = chainLayers[i].Layer().Command()", "the build command stored in a layer's details is not that of chainLayers[i] for the loop's own i")
	r.Check(okIdx, "D1-triple", fa.key+":Index", p.Pos(ldAlloc.Pos()), "Index = i of the same element", "the index stored in a layer's details is not the index of the chain layer the command and diff ID come from")
	r.Check(okDiff, "D1-triple", fa.key+":DiffID", p.Pos(ldAlloc.Pos()), "DiffID derived from chainLayers[i].Layer().DiffID()", "the diff ID stored in a layer's details does not come from the same chain layer")
	// range over all layers from 0
	if ph, ok := idxPhi(idx); ok {
		first := false
		for _, e := range ph.Edges {
			if k, ok := constInt(e); ok && k == -1 {
				first = true
			}
		}
		r.Check(first, "D1-triple", fa.key+":all-layers", p.Pos(ldAlloc.Pos()), "one details record per chain layer, in order", "the details list is not built for every chain layer starting from the first: list positions and layer indices disagree")
	}
	// position k of the list holds the record built for layer k: every iteration appends the record it
	// just built (not a looked-up or shared one), and no iteration ends without appending
	napp := 0
	forEachInstr(fn, func(_ *ssa.BasicBlock, _ int, in ssa.Instruction) {
		if !isAppendOf("LayerDetails")(in) {
			return
		}
		c := in
		napp++
		okEl := false
		for _, a := range collectedValues(in) {
			if a == ssa.Value(ldAlloc) {
				okEl = true
			}
		}
		r.Check(okEl && loopHeaderOf(c.Block()) == loopHeaderOf(ldAlloc.Block()), "D1-triple", fa.key+":list-element-is-this-layers-record", p.Pos(c.Pos()), "each iteration appends the record it built for its own layer", "the per-layer details list does not get, at position i, the record built for layer i (a shared or looked-up record is appended instead): packages of one layer are reported with another layer's index and command")
	})
	r.Check(napp == 1, "D1-triple", fa.key+":one-append", p.Pos(ldAlloc.Pos()), "the list is appended to in exactly one place", fmt.Sprintf("the per-layer details list is appended to in %d places", napp))
	if hdr := loopHeaderOf(ldAlloc.Block()); hdr != nil {
		var sk []string
		for _, x := range loopSkips(fn, isAppendOf("LayerDetails")) {
			if !strings.HasPrefix(x, "range-end: param") {
				sk = append(sk, x)
			}
		}
		r.Check(len(sk) == 0, "D1-triple", fa.key+":no-layer-skipped", p.Pos(hdr.Instrs[0].Pos()), "every chain layer gets a record", fmt.Sprintf("an iteration can end without appending a record (%v): list positions and layer indices drift apart", sk))
	}
	// every store to Package.LayerDetails is an element of the list (IndexAddr load of the list)
	nst := 0
	forEachInstr(fn, func(_ *ssa.BasicBlock, _ int, in ssa.Instruction) {
		st, ok := in.(*ssa.Store)
		if !ok || !storesField("Package", "LayerDetails")(in) {
			return
		}
		nst++
		okk := true
		seen := map[ssa.Value]bool{}
		var rec func(v ssa.Value)
		rec = func(v ssa.Value) {
			if seen[v] {
				return
			}
			seen[v] = true
			switch x := v.(type) {
			case *ssa.Phi:
				for _, e := range x.Edges {
					rec(e)
				}
			case *ssa.UnOp:
				if ia, ok := x.X.(*ssa.IndexAddr); ok {
					// the list value: a phi/append chain of *LayerDetails slices
					if sl, ok := ia.X.Type().Underlying().(*types.Slice); ok {
						if n := namedOf(sl.Elem()); n != nil && n.Obj().Name() == "LayerDetails" {
							return
						}
					}
				}
				okk = false
			case *ssa.Alloc:
				// a copy of a list element with InBaseImage adjusted is fine when all other fields are copied from one
				okk = okk && copiesListElement(x)
			default:
				okk = false
			}
		}
		rec(st.Val)
		r.Check(okk, "D1-triple", fmt.Sprintf("%s:assigned#%d", fa.key, nst), p.Pos(st.Pos()), "a package's LayerDetails is (a copy of) an element of the per-layer list", "a package is given layer details that are not taken from the per-layer list")
	})
	r.Instances("D1-triple", "stores to Package.LayerDetails", nst, 1)

	// ---- the backward scan
	var scanPhi *ssa.Phi // i
	forEachInstr(fn, func(_ *ssa.BasicBlock, _ int, in ssa.Instruction) {
		ph, ok := in.(*ssa.Phi)
		if !ok || !isIntLike(ph.Type()) {
			return
		}
		start, dec := false, false
		for _, e := range ph.Edges {
			// len(chainLayers)-2, however the subtraction is spelled (len-2, (len-1)-1, …)
			if base, off, ok := linearOffset(e); ok && off == -2 {
				if lc, ok := base.(*ssa.Call); ok && isCallTo(lc, "builtin", "", "len") && lc.Call.Args[0] == ssa.Value(layers) {
					start = true
				}
			}
			if bo, ok := e.(*ssa.BinOp); ok && bo.Op == token.SUB {
				k, isK := constInt(bo.Y)
				if isK && k == 1 && bo.X == ssa.Value(ph) {
					dec = true
				}
			}
		}
		if start && dec {
			scanPhi = ph
		}
	})
	if scanPhi == nil {
		r.Fail("D4-all-views", fa.key+":scan-index", p.Pos(fn.Pos()), "no backward scan 'for i := len(chainLayers)-2; …; i--' over the earlier views")
		return
	}
	hdr := scanPhi.Block()
	okTest := false
	if ifi := blockIf(hdr); ifi != nil {
		if m, pos := condCmp(func(v ssa.Value) bool { return v == ssa.Value(scanPhi) }, isConstInt(0), token.GEQ)(stripNotV(ifi.Cond)); m && pos {
			okTest = true
		}
	}
	r.Check(okTest, "D4-all-views", fa.key+":reaches-layer-0", p.Pos(scanPhi.Pos()), "loop continues while i >= 0", "the backward scan does not continue down to layer 0 (its condition is not i >= 0): packages present since an early layer are attributed too late")
	// every phi edge other than the start is i-1
	for _, e := range scanPhi.Edges {
		if bo, ok := e.(*ssa.BinOp); ok && bo.Op == token.SUB && bo.X == ssa.Value(scanPhi) {
			k, _ := constInt(bo.Y)
			r.Check(k == 1, "D4-all-views", fa.key+":step", p.Pos(scanPhi.Pos()), "step -1", "the scan skips views (step is not -1)")
		}
	}
	// the view examined is chainLayers[i]
	var old ssa.Value
	forEachInstr(fn, func(_ *ssa.BasicBlock, _ int, in ssa.Instruction) {
		if u, ok := in.(*ssa.UnOp); ok {
			if ia, ok := u.X.(*ssa.IndexAddr); ok && ia.X == ssa.Value(layers) && ia.Index == ssa.Value(scanPhi) {
				old = u
			}
		}
	})
	r.Check(old != nil, "D4-all-views", fa.key+":view-i", p.Pos(scanPhi.Pos()), "examines chainLayers[i]", "the view examined in iteration i is not chainLayers[i]")

	// ---- D2 cache
	var key *ssa.Alloc
	forEachInstr(fn, func(_ *ssa.BasicBlock, _ int, in ssa.Instruction) {
		if al, ok := in.(*ssa.Alloc); ok {
			if st, n := structOf(al.Type()); st != nil && n != nil && n.Obj().Name() == "locationAndIndex" {
				key = al
			}
		}
	})
	var updates []*ssa.MapUpdate
	var cacheMap ssa.Value
	forEachInstr(fn, func(_ *ssa.BasicBlock, _ int, in ssa.Instruction) {
		if mu, ok := in.(*ssa.MapUpdate); ok {
			if mt, ok := mu.Map.Type().Underlying().(*types.Map); ok {
				if n := namedOf(mt.Key()); n != nil && n.Obj().Name() == "locationAndIndex" {
					updates = append(updates, mu)
					cacheMap = mu.Map
				}
			}
		}
	})
	if key == nil || len(updates) == 0 {
		r.Fail("D2-cache", fa.key+":cache", p.Pos(fn.Pos()), "no extraction cache keyed by locationAndIndex")
	} else {
		kf := map[string]ssa.Value{}
		for _, ref := range *key.Referrers() {
			if fad, ok := ref.(*ssa.FieldAddr); ok {
				_, f, _, _ := fieldOf(fad)
				for _, r2 := range *fad.Referrers() {
					if st, ok := r2.(*ssa.Store); ok {
						kf[f] = st.Val
					}
				}
			}
		}
		okLoc := false
		if u, ok := kf["location"].(*ssa.UnOp); ok {
			if ia, ok := u.X.(*ssa.IndexAddr); ok && loadsField(ia.X, "Package", "Locations") {
				if k, ok := constInt(ia.Index); ok && k == 0 {
					okLoc = true
				}
			}
		}
		r.Check(kf["index"] == ssa.Value(scanPhi) && okLoc, "D2-cache", fa.key+":key", p.Pos(key.Pos()), "key = (pkg.Locations[0], i)", "the cache key does not contain both the package's first location and the index of the view being examined: results of one view are reused for another")
		r.Check(len(updates) == 1, "D2-cache", fa.key+":single-writer", p.Pos(updates[0].Pos()), "the cache is written in one place", fmt.Sprintf("the cache is written in %d places: entries that do not hold the packages of (location, view) can be read back as if they did", len(updates)))
		// the value written is what the comparison below uses
		_ = cacheMap
	}

	// ---- D3 skip discipline
	// comparison = the loop over oldPackages; foundPackage phi tested after it. Identify the test:
	// the If whose false... we use the store into the origin: layerDetails = list[lastScanned]; foundOrigin = true
	// lastScanned phi at hdr
	var lastPhi *ssa.Phi
	for _, in := range hdr.Instrs {
		ph, ok := in.(*ssa.Phi)
		if !ok {
			break
		}
		if ph == scanPhi || !isIntLike(ph.Type()) {
			continue
		}
		for _, e := range ph.Edges {
			if bo, ok := e.(*ssa.BinOp); ok && bo.Op == token.SUB {
				if k, ok := constInt(bo.Y); ok && k == 1 {
					if lc, ok := bo.X.(*ssa.Call); ok && isCallTo(lc, "builtin", "", "len") {
						lastPhi = ph
					}
				}
			}
		}
	}
	if lastPhi == nil {
		r.Fail("D3-skip", fa.key+":last-scanned", p.Pos(hdr.Instrs[0].Pos()), "no 'latest scanned layer' variable (starting at len-1) is carried by the backward scan")
		return
	}
	// sanctioned skip: filesExistInLayer(...) false edge
	_, sanct := guardEdges(fn, condCall(func(c *ssa.Call) bool {
		f := c.Call.StaticCallee()
		return f != nil && f.Name() == "filesExistInLayer"
	}))
	if len(sanct) == 0 {
		r.Note("no filesExistInLayer test: every iteration must then compare")
	}
	body := naturalLoop(hdr)
	type backEdge struct {
		pred *ssa.BasicBlock
		val  ssa.Value
		to   *ssa.BasicBlock
	}
	var bes []backEdge
	var expand func(ph *ssa.Phi, depth int)
	expand = func(ph *ssa.Phi, depth int) {
		for i, e := range ph.Edges {
			pred := ph.Block().Preds[i]
			if !body[pred] {
				continue // entry edge
			}
			if inner, ok := e.(*ssa.Phi); ok && inner != lastPhi && inner != scanPhi && body[inner.Block()] && depth < 4 {
				expand(inner, depth+1)
				continue
			}
			bes = append(bes, backEdge{pred, e, ph.Block()})
		}
	}
	expand(lastPhi, 0)
	for i, be := range bes {
		pred, e := be.pred, be.val
		site := fmt.Sprintf("%s:back-edge#%d", fa.key, i)
		pos := p.Pos(pred.Instrs[len(pred.Instrs)-1].Pos())
		switch {
		case e == ssa.Value(scanPhi):
			ok := len(updates) == 1 && updates[0].Block().Dominates(pred)
			if !ok && len(updates) == 1 {
				// the packages were obtained either by the one cache write or by a hit in that cache
				// (the store may sit on the miss branch only): cut both and the edge must be unreachable
				hits, _ := guardEdges(fn, func(c ssa.Value) (bool, bool) {
					ex, isEx := c.(*ssa.Extract)
					if !isEx || ex.Index != 1 {
						return false, false
					}
					lk, isLk := ex.Tuple.(*ssa.Lookup)
					return isLk && lk.CommaOk && sameValue(lk.X, cacheMap) && sameValue(lk.Index, updates[0].Key), true
				})
				ub := updates[0].Block()
				cut := append([]Edge{}, hits...)
				for k := range ub.Succs {
					cut = append(cut, Edge{ub, k})
				}
				ok = len(hits) > 0 && onlyVia(fn, pred, cut)
			}
			r.Check(ok, "D3-skip", site, pos, "recorded as latest scanned only after its packages were obtained and compared", "a layer is recorded as the latest scanned one on a path that did not obtain and compare its packages")
		case e == ssa.Value(lastPhi):
			ok := len(sanct) > 0 && onlyVia(fn, pred, sanct)
			for _, se := range sanct {
				if se.From == pred && se.To() == be.to {
					ok = true
				}
			}
			r.Check(ok, "D3-skip", site, pos, "comparison skipped only when none of the package's files is in this layer", "an iteration of the backward scan can be skipped without comparing packages for a reason other than 'none of the package's files is in this layer' (e.g. for empty layers, or on a cache marker): the layer that removed or introduced the package is jumped over and the package is attributed to an older layer")
		default:
			r.Fail("D3-skip", site, pos, "the latest-scanned index is set to something other than the current view's index")
		}
	}
	r.Instances("D3-skip", "ways back to the head of the backward scan", len(bes), 2)
	// origin assignment: list[lastScanned] under !foundPackage; default list[0]
	forEachInstr(fn, func(_ *ssa.BasicBlock, _ int, in ssa.Instruction) {
		u, ok := in.(*ssa.UnOp)
		if !ok {
			return
		}
		ia, ok := u.X.(*ssa.IndexAddr)
		if !ok {
			return
		}
		sl, ok := ia.X.Type().Underlying().(*types.Slice)
		if !ok {
			return
		}
		if n := namedOf(sl.Elem()); n == nil || n.Obj().Name() != "LayerDetails" {
			return
		}
		if len(hdr.Succs) == 2 && hdr.Succs[0].Dominates(u.Block()) {
			// the default origin (element 0) taken on an error exit inside the loop is not an "absent
			// from an earlier view" answer
			if k, isK := constInt(ia.Index); isK && k == 0 {
				errHolds, _ := guardEdges(fn, condNonNil(func(v ssa.Value) bool { return v.Type().String() == "error" }))
				if len(errHolds) > 0 && !reachable(hdr.Succs[0], edgesOf(errHolds), nil)[u.Block()] {
					return
				}
			}
			r.Check(ia.Index == ssa.Value(lastPhi), "D3-skip", fa.key+":origin", p.Pos(u.Pos()), "origin = details of the latest scanned layer", "when a package is absent from an earlier view its origin is not set to the latest layer that was actually scanned (the layer after the gap)")
		}
	})
	// default: element 0 when no absence found
	okDef := false
	forEachInstr(fn, func(_ *ssa.BasicBlock, _ int, in ssa.Instruction) {
		if u, ok := in.(*ssa.UnOp); ok {
			if ia, ok := u.X.(*ssa.IndexAddr); ok {
				if k, isK := constInt(ia.Index); isK && k == 0 {
					if sl, ok := ia.X.Type().Underlying().(*types.Slice); ok {
						if n := namedOf(sl.Elem()); n != nil && n.Obj().Name() == "LayerDetails" {
							okDef = true
						}
					}
				}
			}
		}
	})
	// the same two answers chosen by index first (origin := 0; …; origin = lastScanned; break;
	// list[origin]): every way the index is set is the constant 0 or the latest scanned index
	forEachInstr(fn, func(_ *ssa.BasicBlock, _ int, in ssa.Instruction) {
		u, ok := in.(*ssa.UnOp)
		if !ok {
			return
		}
		ia, ok := u.X.(*ssa.IndexAddr)
		if !ok {
			return
		}
		sl, ok := ia.X.Type().Underlying().(*types.Slice)
		if !ok {
			return
		}
		if n := namedOf(sl.Elem()); n == nil || n.Obj().Name() != "LayerDetails" {
			return
		}
		ph, isPhi := ia.Index.(*ssa.Phi)
		if !isPhi || ph == lastPhi || ph == scanPhi || naturalLoop(hdr)[u.Block()] {
			return
		}
		for _, l := range phiLeavesStop(ph, u.Block(), func(v ssa.Value) bool { return v == ssa.Value(lastPhi) || v == ssa.Value(scanPhi) }) {
			if k, isK := constInt(l.val); isK && k == 0 {
				okDef = true
				continue
			}
			r.Check(l.val == ssa.Value(lastPhi), "D3-skip", fa.key+":origin", p.Pos(u.Pos()), "origin = details of the latest scanned layer", "when a package is absent from an earlier view its origin is not set to the latest layer that was actually scanned (the layer after the gap)")
		}
	})
	r.Check(okDef, "D3-skip", fa.key+":default-first-layer", p.Pos(fn.Pos()), "present in every view ⇒ first layer", "a package present in every examined view is not attributed to the first layer")

	// ---- D5 ScanContainer
	sc := p.Func(".", "Scanner.ScanContainer")
	if sc == nil {
		r.Undecided("D5-same-layers", "anchor:ScanContainer", "-", "not found")
		return
	}
	var cl, tr *ssa.Call
	forEachInstr(sc, func(_ *ssa.BasicBlock, _ int, in ssa.Instruction) {
		if c, ok := in.(*ssa.Call); ok {
			if c.Call.StaticCallee() != nil && c.Call.StaticCallee().Name() == "ChainLayers" {
				cl = c
			}
			if refOf(c.Common()).is(fp(tracePkg), "", "PopulateLayerDetails") {
				tr = c
			}
		}
	})
	if cl == nil || tr == nil {
		r.Fail("D5-same-layers", fnKey(sc)+":calls", p.Pos(sc.Pos()), "ScanContainer does not obtain the chain layers and trace with them")
		return
	}
	same := false
	if ex, ok := tr.Call.Args[2].(*ssa.Extract); ok && ex.Tuple == ssa.Value(cl) && ex.Index == 0 {
		same = true
	}
	r.Check(same, "D5-same-layers", fnKey(sc)+":same-list", p.Pos(tr.Pos()), "trace uses img.ChainLayers()", "the layers used for attribution are not the image's chain layers")
	// final chain layer = chainLayers[len-1]
	okLast := false
	forEachInstr(sc, func(_ *ssa.BasicBlock, _ int, in ssa.Instruction) {
		if ia, ok := in.(*ssa.IndexAddr); ok {
			if bo, ok := ia.Index.(*ssa.BinOp); ok && bo.Op == token.SUB {
				if k, ok := constInt(bo.Y); ok && k == 1 {
					if lc, ok := bo.X.(*ssa.Call); ok && isCallTo(lc, "builtin", "", "len") && lc.Call.Args[0] == ia.X {
						okLast = true
					}
				}
			}
		}
	})
	r.Check(okLast, "D5-same-layers", fnKey(sc)+":scans-last-view", p.Pos(sc.Pos()), "scans chainLayers[len-1]", "the view that is scanned is not the last chain layer")
}

func idxPhi(idx ssa.Value) (*ssa.Phi, bool) {
	bo, ok := idx.(*ssa.BinOp)
	if !ok {
		ph, ok := idx.(*ssa.Phi)
		return ph, ok
	}
	ph, ok := bo.X.(*ssa.Phi)
	return ph, ok
}

// copiesListElement: a fresh LayerDetails whose fields are copied from one list element.
func copiesListElement(al *ssa.Alloc) bool {
	ok := true
	n := 0
	for _, ref := range *al.Referrers() {
		fad, isFA := ref.(*ssa.FieldAddr)
		if !isFA {
			continue
		}
		_, f, _, _ := fieldOf(fad)
		for _, r2 := range *fad.Referrers() {
			st, isSt := r2.(*ssa.Store)
			if !isSt {
				continue
			}
			n++
			if f == "InBaseImage" {
				continue
			}
			s2, f2, _, ok2 := fieldOf(loadAddr(st.Val))
			if !ok2 || s2 != "LayerDetails" || f2 != f {
				ok = false
			}
		}
	}
	return ok && n >= 3
}

// naturalLoop returns the blocks of the natural loop(s) headed by hdr.
func naturalLoop(hdr *ssa.BasicBlock) map[*ssa.BasicBlock]bool {
	body := map[*ssa.BasicBlock]bool{hdr: true}
	var st []*ssa.BasicBlock
	for _, p := range hdr.Preds {
		if hdr.Dominates(p) && !body[p] {
			body[p] = true
			st = append(st, p)
		}
	}
	for len(st) > 0 {
		b := st[len(st)-1]
		st = st[:len(st)-1]
		for _, p := range b.Preds {
			if !body[p] {
				body[p] = true
				st = append(st, p)
			}
		}
	}
	return body
}

// c05PresenceExits: the audited decision on which the search through an older view's packages
// stops (everything else must move on to the next entry).
var c05PresenceExits = []string{
	"artifact/image/layerscanning/trace.areLocationsEqual(φ:[]*extractor.Package[ι].Locations,param1.Packages[ι].Locations) && nil:github.com/google/osv-scalibr/extractor.Extractor != φ:[]*extractor.Package[ι].Extractor && purl.String(extractor.ToPURL(φ:[]*extractor.Package[ι].Extractor,φ:[]*extractor.Package[ι])) == φ:string",
}

// c05Presence: the inner loop over the packages extracted from an older view leaves early only when
// an entry with the same package URL and equal locations was found; entries that do not match —
// whatever else they have in common with the traced package (e.g. the name) — never end the search.
// linearOffset: v = base + off for a constant off, folding nested additions and subtractions of constants.
func linearOffset(v ssa.Value) (base ssa.Value, off int64, ok bool) {
	base = v
	for d := 0; d < 6; d++ {
		bo, isB := base.(*ssa.BinOp)
		if !isB || (bo.Op != token.ADD && bo.Op != token.SUB) {
			break
		}
		k, isK := constInt(bo.Y)
		if !isK {
			break
		}
		if bo.Op == token.ADD {
			off += k
		} else {
			off -= k
		}
		base = bo.X
	}
	return base, off, base != v
}

func c05Presence(p *Prog, r *Report) {
	fn := p.Func(tracePkg, "PopulateLayerDetails")
	if fn == nil {
		return
	}
	var loc ssa.Instruction
	forEachInstr(fn, func(_ *ssa.BasicBlock, _ int, in ssa.Instruction) {
		if isCallTo(in, fp(tracePkg), "", "areLocationsEqual") {
			loc = in
		}
	})
	site := fnKey(fn) + ":presence-loop"
	if loc == nil {
		r.Fail("D6-presence", site, p.Pos(fn.Pos()), "locations of the old and the traced package are no longer compared")
		return
	}
	hdr := loopHeaderOf(loc.Block())
	if hdr == nil {
		r.Fail("D6-presence", site, p.Pos(loc.Pos()), "the comparison is not made inside a loop over the older view's packages")
		return
	}
	defer func(d int, a bool) { renderDepth, renderAllocs = d, a }(renderDepth, renderAllocs)
	renderDepth, renderAllocs = 8, true
	got := loopExitDecisions(hdr)
	if os.Getenv("SCALINT_LEARN") != "" {
		for _, g := range got {
			fmt.Fprintf(os.Stderr, "LEARN-PRESENCE\t%q,\n", g)
		}
		return
	}
	want := append([]string{}, c05PresenceExits...)
	sort.Strings(want)
	r.Check(strings.Join(got, "\n") == strings.Join(want, "\n"), "D6-presence", site, p.Pos(hdr.Instrs[0].Pos()), "the search stops only on an entry with equal package URL and locations", fmt.Sprintf("the search through the older view's packages can stop on another decision than 'same package URL and same locations' (got %v): e.g. the first entry with the same name decides, so a second version of that name looks absent and the package is attributed to a later layer", got))
}
