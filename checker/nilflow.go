package main

import (
	"fmt"
	"go/ast"
	"go/token"
	"go/types"
	"sort"

	"golang.org/x/tools/go/ssa"
)

// ---------------------------------------------------------------------------------------------
// B8: nil after decode. encoding/json and yaml.v3 leave (or set) pointers nil when the document
// says null or omits the value: the top-level pointer given as &p, pointer-typed struct fields,
// pointer elements of slices and maps. A dereference of such a value must be dominated by a
// non-nil test of the same value (or, for the top-level pointer, preceded on every path by a
// non-nil test or a store of a fresh value).
// ---------------------------------------------------------------------------------------------

func isNullingDecoder(rf CallRef) (bool, int) {
	switch {
	case rf.Pkg == "encoding/json" && rf.Recv == "Decoder" && rf.Name == "Decode":
		return true, 1
	case rf.Pkg == "encoding/json" && rf.Name == "Unmarshal" && rf.Recv == "":
		return true, 1
	case rf.Pkg == "gopkg.in/yaml.v3" && rf.Recv == "Decoder" && rf.Name == "Decode":
		return true, 1
	case rf.Pkg == "gopkg.in/yaml.v3" && rf.Name == "Unmarshal" && rf.Recv == "":
		return true, 1
	case rf.Pkg == "gopkg.in/yaml.v2" && rf.Name == "Unmarshal" && rf.Recv == "":
		return true, 1
	case rf.Pkg == "gopkg.in/yaml.v2" && rf.Recv == "Decoder" && rf.Name == "Decode":
		return true, 1
	}
	return false, 0
}

type nilTaint struct {
	p      *Prog
	params map[*ssa.Function]map[int]bool // tainted memory reachable from these params
	done   map[*ssa.Function]string
}

type nilSite struct {
	fn   *ssa.Function
	in   ssa.Instruction
	val  ssa.Value
	what string
}

// analyse returns the dereference sites of possibly-nil decoded pointers in the given functions
// (and, through parameter passing, in their first-party callees up to the given depth).
func (nt *nilTaint) analyse(fns []*ssa.Function, inScope map[*ssa.Function]bool) []nilSite {
	var sites []nilSite
	work := append([]*ssa.Function{}, fns...)
	seenSig := map[string]bool{}
	for iter := 0; len(work) > 0 && iter < 5000; iter++ {
		fn := work[0]
		work = work[1:]
		sig := fmt.Sprint(fnKey(fn), nt.params[fn])
		if seenSig[sig] {
			continue
		}
		seenSig[sig] = true
		s, calls := nt.analyseFn(fn)
		sites = append(sites, s...)
		for _, c := range calls {
			if !inScope[c.fn] {
				continue
			}
			if nt.params[c.fn] == nil {
				nt.params[c.fn] = map[int]bool{}
			}
			if !nt.params[c.fn][c.idx] {
				nt.params[c.fn][c.idx] = true
				work = append(work, c.fn)
			}
		}
	}
	// dedupe
	seen := map[string]bool{}
	var out []nilSite
	for _, s := range sites {
		k := fmt.Sprint(fnKey(s.fn), s.in.Pos(), s.what)
		if !seen[k] {
			seen[k] = true
			out = append(out, s)
		}
	}
	sort.Slice(out, func(i, j int) bool {
		if fnKey(out[i].fn) != fnKey(out[j].fn) {
			return fnKey(out[i].fn) < fnKey(out[j].fn)
		}
		return out[i].in.Pos() < out[j].in.Pos()
	})
	return out
}

type taintCall struct {
	fn  *ssa.Function
	idx int
}

func isPtrToStruct(t types.Type) bool {
	p, ok := t.Underlying().(*types.Pointer)
	if !ok {
		return false
	}
	_, ok = p.Elem().Underlying().(*types.Struct)
	return ok
}

// analyseFn: intra-procedural taint of decoded memory.
func (nt *nilTaint) analyseFn(fn *ssa.Function) ([]nilSite, []taintCall) {
	mem := map[ssa.Value]bool{}      // addresses of / values holding decoded memory (structs, slices, maps, pointers into it)
	nullable := map[ssa.Value]bool{} // pointer values loaded from decoded memory: may be nil
	var sites []nilSite
	var calls []taintCall
	// seeds
	for i := range nt.params[fn] {
		if i < len(fn.Params) {
			mem[fn.Params[i]] = true
			if isPtrToStruct(fn.Params[i].Type()) {
				// the caller is responsible for nil-checking what it passes; elements inside are tainted
			}
		}
	}
	var topLevel []struct {
		call  *ssa.Call
		alloc *ssa.Alloc
	}
	forEachInstr(fn, func(_ *ssa.BasicBlock, _ int, in ssa.Instruction) {
		c, ok := in.(*ssa.Call)
		if !ok {
			return
		}
		isDec, argi := isNullingDecoder(refOf(c.Common()))
		if !isDec || argi >= len(c.Call.Args) {
			return
		}
		tgt := stripIface(c.Call.Args[argi])
		mem[tgt] = true
		if al, ok := tgt.(*ssa.Alloc); ok {
			if isPtrToStruct(al.Type().Underlying().(*types.Pointer).Elem()) {
				topLevel = append(topLevel, struct {
					call  *ssa.Call
					alloc *ssa.Alloc
				}{c, al})
			}
		}
	})
	if len(mem) == 0 {
		return nil, nil
	}
	// propagate to fixpoint
	for changed := true; changed; {
		changed = false
		mark := func(m map[ssa.Value]bool, v ssa.Value) {
			if !m[v] {
				m[v] = true
				changed = true
			}
		}
		forEachInstr(fn, func(_ *ssa.BasicBlock, _ int, in ssa.Instruction) {
			switch x := in.(type) {
			case *ssa.FieldAddr:
				if mem[x.X] {
					mark(mem, x)
				}
			case *ssa.Field:
				if mem[x.X] {
					mark(mem, x)
					if isPtrToStruct(x.Type()) {
						mark(nullable, x)
					}
				}
			case *ssa.IndexAddr:
				if mem[x.X] {
					mark(mem, x)
				}
			case *ssa.Index:
				if mem[x.X] {
					mark(mem, x)
					if isPtrToStruct(x.Type()) {
						mark(nullable, x)
					}
				}
			case *ssa.Lookup:
				if mem[x.X] {
					mark(mem, x)
					if !x.CommaOk && isPtrToStruct(x.Type()) {
						mark(nullable, x)
					}
				}
			case *ssa.UnOp:
				if x.Op == token.MUL && mem[x.X] {
					mark(mem, x)
					if isPtrToStruct(x.Type()) {
						// a load of a pointer stored in decoded memory (not the alloc'd top-level var itself: handled separately)
						if _, isAlloc := x.X.(*ssa.Alloc); !isAlloc {
							mark(nullable, x)
						}
					}
				}
			case *ssa.Range:
				if mem[x.X] {
					mark(mem, x)
				}
			case *ssa.Next:
				if mem[x.Iter] {
					mark(mem, x)
				}
			case *ssa.Extract:
				if mem[x.Tuple] {
					if _, isCall := x.Tuple.(*ssa.Call); isCall {
						return
					}
					mark(mem, x)
					if isPtrToStruct(x.Type()) {
						mark(nullable, x)
					}
				}
			case *ssa.Phi:
				for _, e := range x.Edges {
					if mem[e] {
						mark(mem, x)
					}
					if nullable[e] {
						mark(nullable, x)
					}
				}
			case *ssa.Slice:
				if mem[x.X] {
					mark(mem, x)
				}
			case *ssa.ChangeType:
				if mem[x.X] {
					mark(mem, x)
				}
				if nullable[x.X] {
					mark(nullable, x)
				}
			case *ssa.MakeInterface:
				if mem[x.X] {
					mark(mem, x)
				}
			case *ssa.Store:
				// copying decoded data into a local keeps it decoded
				if mem[x.Val] {
					if _, isAlloc := x.Addr.(*ssa.Alloc); isAlloc {
						mark(mem, x.Addr)
					}
				}
			}
		})
	}
	// sites: dereference of nullable values without a dominating non-nil fact
	c := newBoundsCtx(nt.p, fn)
	c.noParamFacts = true
	forEachInstr(fn, func(_ *ssa.BasicBlock, _ int, in ssa.Instruction) {
		var ptr ssa.Value
		switch x := in.(type) {
		case *ssa.FieldAddr:
			ptr = x.X
		case *ssa.UnOp:
			if x.Op == token.MUL {
				ptr = x.X
			}
		case *ssa.Call:
			// passing decoded memory on
			if callee := x.Call.StaticCallee(); callee != nil && callee.Blocks != nil {
				for i, a := range x.Call.Args {
					if mem[stripIface(a)] {
						calls = append(calls, taintCall{callee, i})
					}
					if nullable[a] && isPtrToStruct(a.Type()) && !x.Call.IsInvoke() {
						// method call on a possibly-nil receiver / passing it on: the callee will dereference
						if i == 0 && callee.Signature.Recv() != nil {
							ptr = a
						}
					}
				}
			}
		}
		if ptr == nil || !nullable[ptr] {
			return
		}
		g := c.graphFor(in)
		if g.nn[c.key(ptr)] {
			return
		}
		sites = append(sites, nilSite{fn, in, ptr, "decoded-pointer"})
	})
	// top-level pointer: path from the decode call to a deref that neither takes a non-nil edge nor passes a fresh store
	for _, tl := range topLevel {
		al := tl.alloc
		isLoad := func(v ssa.Value) bool {
			u, ok := v.(*ssa.UnOp)
			return ok && u.Op == token.MUL && u.X == ssa.Value(al)
		}
		holds, _ := guardEdges(fn, condNonNil(isLoad))
		freshStore := func(in ssa.Instruction) bool {
			st, ok := in.(*ssa.Store)
			if !ok || st.Addr != ssa.Value(al) {
				return false
			}
			_, isAl := st.Val.(*ssa.Alloc)
			return isAl
		}
		forEachInstr(fn, func(_ *ssa.BasicBlock, _ int, in ssa.Instruction) {
			var ptr ssa.Value
			switch x := in.(type) {
			case *ssa.FieldAddr:
				ptr = x.X
			case *ssa.UnOp:
				if x.Op == token.MUL && isLoad(x.X) {
					ptr = x.X
				}
			}
			if ptr == nil || !isLoad(ptr) {
				return
			}
			if w := findPath(pointOf(tl.call), instrIs(in), freshStore, edgesOf(holds)); w != nil {
				sites = append(sites, nilSite{fn, in, ptr, "decoded-top-level"})
			}
		})
	}
	return sites, calls
}

// ---------------------------------------------------------------------------------------------
// D1-nil-local (round 9): a local pointer that is nil on some path into a merge point (a phi with
// a nil constant among its transitive inputs: `var cur *T` assigned in one branch of a loop) is
// dereferenced only where a non-nil fact of that very value holds (dominating `cur != nil` test, or
// the error return of the `cur == nil` branch). The input decides which branch runs, so an
// unguarded dereference is a content-triggered panic.
// ---------------------------------------------------------------------------------------------

func nilLocalDerefs(p *Prog, r *Report, rule string, fns []*ssa.Function, audited map[string]auditEntry) {
	nphi, nsites := 0, 0
	for _, fn := range fns {
		pk := p.pkgOfFn(fn)
		if pk != nil && p.isGenerated(pk, fn.Pos()) {
			continue
		}
		maybeNil := map[ssa.Value]bool{}
		forEachInstr(fn, func(_ *ssa.BasicBlock, _ int, in ssa.Instruction) {
			ph, ok := in.(*ssa.Phi)
			if !ok || !isPtrToStruct(ph.Type()) {
				return
			}
			for _, e := range ph.Edges {
				if c, ok := e.(*ssa.Const); ok && c.IsNil() {
					maybeNil[ph] = true
				}
			}
		})
		if len(maybeNil) == 0 {
			continue
		}
		for changed := true; changed; {
			changed = false
			forEachInstr(fn, func(_ *ssa.BasicBlock, _ int, in ssa.Instruction) {
				if ph, ok := in.(*ssa.Phi); ok && !maybeNil[ph] {
					for _, e := range ph.Edges {
						if maybeNil[e] {
							maybeNil[ph] = true
							changed = true
						}
					}
				}
			})
		}
		nphi += len(maybeNil)
		c := newBoundsCtx(p, fn)
		c.noParamFacts = true
		forEachInstr(fn, func(_ *ssa.BasicBlock, _ int, in ssa.Instruction) {
			var ptr ssa.Value
			switch x := in.(type) {
			case *ssa.FieldAddr:
				ptr = x.X
			case *ssa.UnOp:
				if x.Op == token.MUL {
					ptr = x.X
				}
			}
			if ptr == nil || !maybeNil[ptr] {
				return
			}
			nsites++
			e := p.exprAt(fn, in.Pos(), func(n ast.Node) bool {
				switch n.(type) {
				case *ast.SelectorExpr, *ast.StarExpr:
					return true
				}
				return false
			})
			site := fnKey(fn) + ":nil-local:" + e
			if c.graphFor(in).nn[c.key(ptr)] {
				r.OK(rule, site, p.Pos(in.Pos()), "a non-nil fact of the pointer holds here")
				return
			}
			if a, ok := audited[site]; ok {
				r.Audit(rule, site, p.Pos(in.Pos()), a.reason)
				return
			}
			r.Fail(rule, site, p.Pos(in.Pos()), "dereference of a local pointer that is still nil on some path into this point (no dominating nil test of it): which path runs is decided by the file content")
		})
	}
	r.Count("possibly-nil local pointers (phi with a nil input)", nphi)
	r.Count("dereferences of possibly-nil local pointers", nsites)
	r.Instances(rule, "dereferences of possibly-nil local pointers", nsites, 2)
}
