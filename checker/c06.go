package main

import (
	"fmt"
	"go/token"
	"go/types"
	"sort"
	"strings"

	"golang.org/x/tools/go/ssa"
)

func init() {
	register(&PropDef{
		ID: "C06",
		Explain: "Decided. Scan side: D1 effect inventory — in all first-party code reachable (CHA) from the methods of every registered filesystem extractor and from filesystem.Run, the only calls of file-system-mutating primitives (os.Create/OpenFile-for-write/WriteFile/Mkdir*/Remove*/Rename/Symlink/Link/Chmod/Chown/Chtimes/Truncate/Chdir, temp-file creators, exec.Command*, database opens) are the audited ones: the temp copy in ScanInput.GetRealPath and the RemoveAll of that temp dir in its callers; " +
			"D2 database opens are read-only: every bbolt.Open passes Options{ReadOnly: true}; D3 temp pairing — every caller of GetRealPath removes filepath.Dir(<the returned path>) on all exits when the root is virtual, and GetRealPath removes its directory on its own error exits. " +
			"Image side: D4 in unpack every os.MkdirAll/WriteFile/Symlink is reachable only after the entry name passed the lexical '..' test and pathOutsideBaseDirectory(dir, fullPath) returned false for that path; D5 the containment decision is filepath.Rel-based and rejects both rel == \"..\" and the \"../\" prefix, errors count as outside; D6 layer scanning writes only below filepath.Join(<layer dir>, cleaned name) after the '../' test, creates no symlinks or hard links on disk, every error exit after the temp dir was created passes the clean-up, UnpackSquashed removes its temp dir. " +
			"Added in round 2: D7 symlink.TargetOutsideRoot answers on every path with the marker test on the joined, cleaned path of the target. Added in round 3: D8 a link name is re-rooted under the target directory exactly when it is absolute (the reading TargetOutsideRoot assumes). Added in round 7: D5 additionally: after a failed EvalSymlinks of the parent only fs.ErrNotExist lets the containment check go on (to an ancestor or to 'inside'). Added in round 8: D5 additionally: every answer other than 'outside' is dominated by EvalSymlinks of the parent. NOT decided: effects inside third-party callees (go-rpmdb's sqlite backend, saferwall/pe), symlink targets that resolve outside only through directories changed by later entries, detectors and standalone extractors (outside the scan clause checked here).",
		Assume:       []string{"effects inside third-party functions are not explored; their open modes are trusted rows (rpmdb.Open, pe.New)"},
		ThoroughGOOS: []string{"linux", "windows", "darwin"},
		Run:          runC06,
		Controls: []Mutant{
			{Name: "extractor-writes-cache", File: "extractor/filesystem/os/osrelease/osrelease.go", Old: "		defer f.Close()\n		return parse(f), nil", New: "		defer f.Close()\n		_ = os.WriteFile(\"os-release.cache\", nil, 0o644)\n		return parse(f), nil", Rule: "D1-effects", Site: "osrelease"},
			{Name: "bolt-readwrite", File: "extractor/filesystem/containers/containerd/containerd_linux.go", Old: "	metadataDB, err := bolt.Open(fullMetadataDBPath, 0444, &bolt.Options{Timeout: 1 * time.Second, ReadOnly: true})", New: "	metadataDB, err := bolt.Open(fullMetadataDBPath, 0444, &bolt.Options{Timeout: 1 * time.Second})", Rule: "D2-readonly-db", Site: "snapshotsMetadataFromDB"},
			{Name: "remove-base-not-dir", File: "extractor/filesystem/language/dotnet/dotnetpe/dotnetpe.go", Old: "			dir := filepath.Dir(absPath)", New: "			dir := filepath.Base(absPath)", Rule: "D3-temp-pairing", Site: "dotnetpe"},
			{Name: "getrealpath-leaks-on-error", File: "extractor/filesystem/filesystem.go", Old: "	if err != nil {\n		_ = os.RemoveAll(dir)\n		return \"\", err\n	}\n\n	return path, nil", New: "	if err != nil {\n		return \"\", err\n	}\n\n	return path, nil", Rule: "D3-temp-pairing", Site: "GetRealPath"},
			{Name: "unpack-mkdir-before-check", File: "artifact/image/unpack/unpack.go", Old: "		case tar.TypeLink, tar.TypeSymlink:\n			if pathOutsideBaseDirectory(dir, fullPath) {\n				log.Warnf(\"attempted to create link %q outside of base directory %q\", fullPath, dir)\n				continue\n			}\n", New: "		case tar.TypeLink, tar.TypeSymlink:\n", Rule: "D4-containment", Site: "unpack"},
			{Name: "unpack-dotdot-dropped", File: "artifact/image/unpack/unpack.go", Old: "		if cleanPath == \"..\" || strings.HasPrefix(cleanPath, \"../\") {", New: "		if strings.HasPrefix(cleanPath, \"../../\") {", Rule: "D4-containment", Site: "lexical"},
			{Name: "containment-prefix", File: "artifact/image/unpack/unpack.go", Old: "	return rel == \"..\" || strings.HasPrefix(rel, \"..\"+string(filepath.Separator))", New: "	return strings.HasPrefix(rel, \"..\"+string(filepath.Separator))", Rule: "D5-no-prefix-confusion", Site: "pathOutsideBaseDirectory"},
			{Name: "image-error-no-cleanup", File: "artifact/image/layerscanning/image/image.go", Old: "		if err != nil {\n			return handleImageError(outputImage, err)\n		}\n		v1LayerIndex--", New: "		if err != nil {\n			return nil, err\n		}\n		v1LayerIndex--", Rule: "D6-image-tempdir", Site: "FromV1Image"},
			{Name: "image-zipslip-test-dropped", File: "artifact/image/layerscanning/image/image.go", Old: "		if strings.HasPrefix(cleanedFilePath, \"../\") {\n			continue\n		}\n", New: "", Rule: "D6-image-paths", Site: "fillChainLayersWithFilesFromTar"},
			{Name: "link-target-fast-path", File: "artifact/image/symlink/symlink.go", Old: "	markerDir := uuid.New().String()\n", New: "	if !strings.HasPrefix(filepath.ToSlash(target), \"../\") && !strings.HasPrefix(filepath.ToSlash(target), \"/../\") {\n		return false\n	}\n	markerDir := uuid.New().String()\n", Rule: "D7-link-targets", Site: "TargetOutsideRoot"},
			{Name: "hard-link-name-re-rooted", File: "artifact/image/unpack/unpack.go", Old: "			if filepath.IsAbs(targetPath) {\n				targetPath = filepath.Join(dir, target)", New: "			if filepath.IsAbs(targetPath) || header.Typeflag == tar.TypeLink {\n				targetPath = filepath.Join(dir, target)", Rule: "D8-link-interpretation", Site: "unpack"},
		},
		Neutral: c06Neutral,
	})
}

// mutatorOf classifies a call as a file-system (or process / database) side effect.
func mutatorOf(c *ssa.CallCommon) (string, bool) {
	rf := refOf(c)
	switch rf.Pkg {
	case "os":
		if rf.Recv == "" {
			switch rf.Name {
			case "Create", "WriteFile", "Mkdir", "MkdirAll", "MkdirTemp", "CreateTemp", "Remove", "RemoveAll", "Rename", "Symlink", "Link", "Chmod", "Chown", "Lchown", "Chtimes", "Truncate", "Chdir":
				return "os." + rf.Name, true
			case "OpenFile":
				if k, ok := constInt(c.Args[1]); ok && k&(0x1|0x2|0x40|0x200|0x400) == 0 { // O_WRONLY|O_RDWR|O_CREAT|O_TRUNC|O_APPEND
					return "", false
				}
				return "os.OpenFile(write)", true
			}
		}
		if rf.Recv == "File" {
			switch rf.Name {
			case "Chmod", "Chown", "Truncate":
				return "os.File." + rf.Name, true
			}
		}
	case "io/ioutil":
		switch rf.Name {
		case "WriteFile", "TempDir", "TempFile":
			return "ioutil." + rf.Name, true
		}
	case "os/exec":
		if rf.Name == "Command" || rf.Name == "CommandContext" {
			return "exec." + rf.Name, true
		}
	case "go.etcd.io/bbolt":
		if rf.Name == "Open" && rf.Recv == "" {
			return "bbolt.Open", true
		}
	case "database/sql":
		if rf.Name == "Open" {
			return "sql.Open", true
		}
	case "syscall", "golang.org/x/sys/unix":
		switch rf.Name {
		case "Unlink", "Rmdir", "Mkdir", "Rename", "Symlink", "Link", "Chmod", "Chown", "Truncate", "Mount", "Unmount":
			return rf.Pkg + "." + rf.Name, true
		}
	}
	return "", false
}

// allowed effect sites on the scan side: function key -> primitive -> reason
var allowedEffects = map[string]map[string]string{
	"extractor/filesystem.ScanInput.GetRealPath": {
		"os.MkdirTemp": "temp directory for the copy of a virtual-filesystem file",
		"os.Create":    "the copy inside that temp directory",
		"os.RemoveAll": "removal of that temp directory on the error exits",
	},
	"extractor/filesystem/os/rpm.Extractor.extractFromInput$1":                   {"os.RemoveAll": "removes the GetRealPath temp directory (D3)"},
	"extractor/filesystem/language/dotnet/dotnetpe.Extractor.extractFromInput$1": {"os.RemoveAll": "removes the GetRealPath temp directory (D3)"},
}

func runC06(p *Prog, r *Report) {
	r.Rule("D1-effects", "only audited file-system effects are reachable from extractors and filesystem.Run")
	r.Rule("D2-readonly-db", "database opens are read-only")
	r.Rule("D3-temp-pairing", "GetRealPath temp directories are removed by its callers / on its error exits")
	r.Rule("D4-containment", "unpack: lexical and containment checks dominate every effect")
	r.Rule("D5-no-prefix-confusion", "containment is Rel-based and rejects '..' and '../'")
	r.Rule("D6-image-paths", "layer scanning writes only below its layer directory, no links on disk")
	r.Rule("D6-image-tempdir", "image temp directories are cleaned up on error exits")
	c06Effects(p, r)
	c06TempPairing(p, r)
	c06Unpack(p, r)
	c06Image(p, r)
	r.Rule("D7-link-targets", "the link-target check examines the joined, cleaned path on every path")
	r.Rule("D8-link-interpretation", "a link name is re-rooted under the target directory exactly when it is absolute")
	c06LinkInterpretation(p, r)
	targetOutsideRootBody(p, r, "D7-link-targets")
}

func allExtractorRoots(p *Prog, r *Report) []*ssa.Function {
	pk := p.TPkg("extractor/filesystem/list")
	if pk == nil {
		r.Undecided("D1-effects", "anchor:list", "-", "registry not found")
		return nil
	}
	te := &tableEval{pk: pk}
	if o, ok := pk.Types.Scope().Lookup("concat").(*types.Func); ok {
		te.concatF = o
	}
	if o, ok := pk.Types.Scope().Lookup("vals").(*types.Func); ok {
		te.valsF = o
	}
	allVar, _ := pk.Types.Scope().Lookup("All").(*types.Var)
	if allVar == nil {
		return nil
	}
	rows := te.evalMap(te.varInit(allVar), 0)
	var roots []*ssa.Function
	n := 0
	for _, k := range sortedKeys(rows) {
		for _, ctor := range rows[k].Ctors {
			ts, ok := concreteResults(p.ssaFuncOf(ctor), 0)
			if !ok {
				r.Undecided("D1-effects", "registry:"+k, "-", "cannot determine the plugin's concrete type")
				continue
			}
			roots = append(roots, p.ssaFuncOf(ctor))
			for _, t := range ts {
				n++
				for _, m := range []string{"Extract", "FileRequired", "ToPURL", "Ecosystem", "Name", "Version", "Requirements"} {
					if f := p.methodOf(t, m); f != nil {
						roots = append(roots, f)
					}
				}
			}
		}
	}
	r.Instances("D1-effects", "registered filesystem extractors", n, 56)
	if f := p.Func(fsPkg, "Run"); f != nil {
		roots = append(roots, f)
	}
	return roots
}

func c06Effects(p *Prog, r *Report) {
	roots := allExtractorRoots(p, r)
	fns := p.reachableFrom(roots)
	r.Count("functions reachable from extractors and filesystem.Run", len(fns))
	nsites := 0
	for _, fn := range fns {
		key := fnKey(fn)
		forEachInstr(fn, func(_ *ssa.BasicBlock, _ int, in ssa.Instruction) {
			c := callOf(in)
			if c == nil {
				return
			}
			prim, ok := mutatorOf(c)
			if !ok {
				return
			}
			nsites++
			site := key + ":" + prim
			pos := p.Pos(in.Pos())
			if prim == "bbolt.Open" {
				c06Bolt(p, r, fn, in, c, site)
				return
			}
			if why, ok := allowedEffects[key][prim]; ok {
				r.Audit("D1-effects", site, pos, why)
				return
			}
			r.Fail("D1-effects", site, pos, fmt.Sprintf("%s is reachable from the scan of a directory tree (extractor methods / filesystem.Run): a scan must not create, modify or delete anything outside its own audited temp copy", prim))
		})
	}
	r.Instances("D1-effects", "effect call sites reachable from the scan", nsites, 6)
}

// c06Bolt: Options argument must be a literal with ReadOnly: true.
func c06Bolt(p *Prog, r *Report, fn *ssa.Function, in ssa.Instruction, c *ssa.CallCommon, site string) {
	ok := false
	if len(c.Args) == 3 {
		if al, isAl := c.Args[2].(*ssa.Alloc); isAl {
			for _, ref := range *al.Referrers() {
				if fa, isFA := ref.(*ssa.FieldAddr); isFA {
					if _, f, _, _ := fieldOf(fa); f == "ReadOnly" {
						for _, r2 := range *fa.Referrers() {
							if st, isSt := r2.(*ssa.Store); isSt {
								if b, isB := constBool(st.Val); isB && b {
									ok = true
								}
							}
						}
					}
				}
			}
		}
	}
	r.Check(ok, "D2-readonly-db", site, p.Pos(in.Pos()), "bbolt.Open(..., &Options{ReadOnly: true})", "bbolt.Open without Options.ReadOnly opens the scanned database read-write (the 0444 mode only applies to file creation): an empty or dirty file in the scanned tree is modified")
}

func c06TempPairing(p *Prog, r *Report) {
	grp := p.Func(fsPkg, "ScanInput.GetRealPath")
	if grp == nil {
		r.Undecided("D3-temp-pairing", "anchor:GetRealPath", "-", "not found")
		return
	}
	// own error exits: after MkdirTemp succeeded, a return with a non-nil error must pass RemoveAll(dir)
	fa := newFA(p, r, grp)
	var mk *ssa.Call
	forEachInstr(grp, func(_ *ssa.BasicBlock, _ int, in ssa.Instruction) {
		if c, ok := in.(*ssa.Call); ok && refOf(c.Common()).is("os", "", "MkdirTemp") {
			mk = c
		}
	})
	if mk == nil {
		r.Undecided("D3-temp-pairing", fa.key+":MkdirTemp", "-", "temp directory creation not found")
	} else {
		dirv := func(v ssa.Value) bool {
			ex, ok := v.(*ssa.Extract)
			return ok && ex.Tuple == ssa.Value(mk) && ex.Index == 0
		}
		isErr := func(v ssa.Value) bool {
			ex, ok := v.(*ssa.Extract)
			return ok && ex.Tuple == ssa.Value(mk) && ex.Index == 1
		}
		_, mkOK := guardEdges(grp, condNonNil(isErr))
		for _, ed := range mkOK {
			fa.noPath("D3-temp-pairing", "error-exits-clean-up", edgeStart(ed), func(in ssa.Instruction) bool {
				ret, ok := in.(*ssa.Return)
				return ok && !isNilConst(retVal(ret, 1))
			}, func(in ssa.Instruction) bool {
				c := callOf(in)
				return c != nil && refOf(c).is("os", "", "RemoveAll") && dirv(c.Args[0])
			}, nil, "error exits remove the temp directory", "GetRealPath can fail after creating its temp directory without removing it; callers only clean up the directory of a path they got back, so it stays in the system temp dir")
		}
		// the returned path is inside the temp dir
		okJoin := false
		for _, ret := range returnsOf(grp) {
			if isNilConst(retVal(ret, 1)) {
				if derivesFrom(retVal(ret, 0), dirv, deriveOpts{throughCall: propagatingCall}) || derivesFromJoin(retVal(ret, 0), dirv) {
					okJoin = true
				}
			}
		}
		r.Check(okJoin, "D3-temp-pairing", fa.key+":path-in-tempdir", p.Pos(mk.Pos()), "returned path lies in the fresh temp dir", "the path GetRealPath returns for a virtual file system is not inside its fresh temp directory")
		// and that on *every* successful return taken without a real root: the callers remove
		// filepath.Dir(<returned path>) whenever Root == "", so any other path handed back in that case
		// (the name of an *os.File inside the scanned tree, say) gets its directory deleted
		isRoot := func(v ssa.Value) bool { return loadsField(v, "ScanInput", "Root") }
		rootSet, _ := guardEdges(grp, func(c ssa.Value) (bool, bool) {
			b, ok := c.(*ssa.BinOp)
			if !ok || (b.Op != token.EQL && b.Op != token.NEQ) {
				return false, false
			}
			if s, isS := constString(b.Y); isS && s == "" && isRoot(b.X) {
				return true, b.Op == token.NEQ
			}
			if s, isS := constString(b.X); isS && s == "" && isRoot(b.Y) {
				return true, b.Op == token.NEQ
			}
			if lc, isL := b.X.(*ssa.Call); isL && isCallTo(lc, "builtin", "", "len") && isRoot(lc.Call.Args[0]) {
				if k, isK := constInt(b.Y); isK && k == 0 {
					return true, b.Op == token.NEQ
				}
			}
			return false, false
		})
		for i, ret := range returnsOf(grp) {
			if !isNilConst(retVal(ret, 1)) {
				continue
			}
			inTemp := derivesFrom(retVal(ret, 0), dirv, deriveOpts{throughCall: propagatingCall}) || derivesFromJoin(retVal(ret, 0), dirv)
			realRoot := len(rootSet) > 0 && onlyVia(grp, ret.Block(), rootSet)
			r.Check(inTemp || realRoot, "D3-temp-pairing", fmt.Sprintf("%s:success-return#%d", fa.key, i), p.Pos(ret.Pos()), "a path under the real root, or inside the fresh temp dir", "GetRealPath can hand back, for a virtual root, a path that is not inside a temp directory of its own: its callers delete filepath.Dir of whatever they got back when Root is empty — here a directory of the scanned tree")
		}
	}
	// callers
	ncall := 0
	for _, fn := range p.Funcs() {
		for _, ci := range callsTo(fn, fp(fsPkg), "ScanInput", "GetRealPath") {
			call, ok := ci.(*ssa.Call)
			if !ok {
				continue
			}
			ncall++
			fc := newFA(p, r, fn)
			pathv := func(v ssa.Value) bool {
				ex, ok := v.(*ssa.Extract)
				return ok && ex.Tuple == ssa.Value(call) && ex.Index == 0
			}
			// a deferred closure (or direct call) that calls os.RemoveAll(filepath.Dir(<path>))
			okRemove := false
			var deferIn ssa.Instruction
			forEachInstr(fn, func(_ *ssa.BasicBlock, _ int, in ssa.Instruction) {
				d, ok := in.(*ssa.Defer)
				if !ok {
					return
				}
				cl, ok := d.Call.Value.(*ssa.MakeClosure)
				if !ok {
					return
				}
				// which binding carries the path?
				inner := cl.Fn.(*ssa.Function)
				for bi, b := range cl.Bindings {
					// the directory computed before the defer and captured: dir := filepath.Dir(path)
					dirOutside := derivesFrom(b, func(v ssa.Value) bool {
						cc, _ := callValue(v)
						return cc != nil && refOf(cc.Common()).is("path/filepath", "", "Dir") && derivesFrom(cc.Call.Args[0], pathv, deriveOpts{followStores: true})
					}, deriveOpts{followStores: true})
					if dirOutside {
						fvd := inner.FreeVars[bi]
						forEachInstr(inner, func(_ *ssa.BasicBlock, _ int, in2 ssa.Instruction) {
							c := callOf(in2)
							if c == nil || !refOf(c).is("os", "", "RemoveAll") {
								return
							}
							if derivesFrom(c.Args[0], func(x ssa.Value) bool { return x == ssa.Value(fvd) }, deriveOpts{followStores: true}) {
								okRemove = true
								deferIn = in
							}
						})
					}
					carries := derivesFrom(b, pathv, deriveOpts{followStores: true})
					if !carries {
						continue
					}
					fv := inner.FreeVars[bi]
					forEachInstr(inner, func(_ *ssa.BasicBlock, _ int, in2 ssa.Instruction) {
						c := callOf(in2)
						if c == nil || !refOf(c).is("os", "", "RemoveAll") {
							return
						}
						dc, _ := callValue(c.Args[0])
						if dc == nil {
							// through a local: dir := filepath.Dir(absPath)
							if derivesFrom(c.Args[0], func(v ssa.Value) bool {
								cc, _ := callValue(v)
								return cc != nil && refOf(cc.Common()).is("path/filepath", "", "Dir") && derivesFrom(cc.Call.Args[0], func(x ssa.Value) bool { return x == ssa.Value(fv) }, deriveOpts{followStores: true})
							}, deriveOpts{followStores: true}) {
								okRemove = true
								deferIn = in
							}
							return
						}
						if refOf(dc.Common()).is("path/filepath", "", "Dir") && derivesFrom(dc.Call.Args[0], func(x ssa.Value) bool { return x == ssa.Value(fv) }, deriveOpts{followStores: true}) {
							okRemove = true
							deferIn = in
						}
					})
				}
			})
			site := fc.key + ":cleanup"
			if !okRemove {
				r.Fail("D3-temp-pairing", site, p.Pos(call.Pos()), "no deferred os.RemoveAll(filepath.Dir(<path returned by GetRealPath>)) in the caller: the temp copy is leaked, or something else (e.g. filepath.Base = a file in the working directory) is removed")
				continue
			}
			// the defer is registered on every path where GetRealPath succeeded and Root == ""
			isErr := func(v ssa.Value) bool {
				ex, ok := v.(*ssa.Extract)
				return ok && ex.Tuple == ssa.Value(call) && ex.Index == 1
			}
			_, succ := guardEdges(fn, condNonNil(isErr))
			rootEmpty := condCmp(isFieldLoad("ScanInput", "Root"), func(v ssa.Value) bool { s, ok := constString(v); return ok && s == "" }, token.EQL)
			_, notVirtual := guardEdges(fn, rootEmpty)
			good := len(succ) > 0
			for _, ed := range succ {
				w := findPath(edgeStart(ed), func(in ssa.Instruction) bool {
					// any other work (calls that are not the defer) before the defer is registered
					if isReturn(in) {
						return true
					}
					return false
				}, instrIs(deferIn), edgesOf(notVirtual))
				if w != nil {
					good = false
				}
			}
			r.Check(good, "D3-temp-pairing", site, p.Pos(call.Pos()), "defer os.RemoveAll(filepath.Dir(path)) on every path with a virtual root", "the caller can return without having registered the removal of GetRealPath's temp directory")
		}
	}
	r.Instances("D3-temp-pairing", "callers of GetRealPath", ncall, 2)
}

// derivesFromJoin: v = filepath.Join(slice containing a value satisfying f ...)
func derivesFromJoin(v ssa.Value, f func(ssa.Value) bool) bool {
	c, _ := callValue(v)
	if c == nil || !refOf(c.Common()).is("path/filepath", "", "Join") {
		return false
	}
	for _, a := range flattenVariadic(c.Call.Args) {
		if f(a) {
			return true
		}
	}
	return false
}

func c06Unpack(p *Prog, r *Report) {
	up := p.Func("artifact/image/unpack", "unpack")
	pob := p.Func("artifact/image/unpack", "pathOutsideBaseDirectory")
	if up == nil || pob == nil {
		r.Undecided("D4-containment", "anchor:unpack/pathOutsideBaseDirectory", "-", "not found")
		return
	}
	fa := newFA(p, r, up)
	// lexical test: cleanPath == ".." || HasPrefix(cleanPath, "../") ; cleanPath = path.Clean(header.Name)
	isClean := func(v ssa.Value) bool {
		c, _ := callValue(v)
		return c != nil && refOf(c.Common()).is("path", "", "Clean") && loadsField(c.Call.Args[0], "Header", "Name")
	}
	eqDD := condCmp(isClean, func(v ssa.Value) bool { s, ok := constString(v); return ok && s == ".." }, token.EQL)
	hasDD := condCall(func(c *ssa.Call) bool {
		if !refOf(c.Common()).is("strings", "", "HasPrefix") || !isClean(c.Call.Args[0]) {
			return false
		}
		s, ok := constString(c.Call.Args[1])
		return ok && s == "../"
	})
	_, okEq := guardEdges(up, eqDD)
	_, okPre := guardEdges(up, hasDD)
	if len(okEq) == 0 || len(okPre) == 0 {
		r.Fail("D4-containment", fa.key+":lexical", p.Pos(up.Pos()), "unpack no longer rejects entry names that clean to '..' or start with '../' before using them")
	}
	// fullPath = path.Join(dir, cleanPath)
	isFull := func(v ssa.Value) bool {
		c, _ := callValue(v)
		if c == nil || !(refOf(c.Common()).is("path", "", "Join") || refOf(c.Common()).is("path/filepath", "", "Join")) {
			return false
		}
		args := flattenVariadic(c.Call.Args)
		return len(args) == 2 && args[0] == ssa.Value(up.Params[0]) && isClean(args[1])
	}
	contain := condCall(func(c *ssa.Call) bool {
		return c.Call.StaticCallee() == pob && c.Call.Args[0] == ssa.Value(up.Params[0]) && isFull(c.Call.Args[1])
	})
	_, inside := guardEdges(up, contain)
	// nothing exists at fullPath yet: the error of os.Lstat(fullPath) is not nil. The containment
	// check resolves the *parent*; os.WriteFile follows a symlink that an earlier entry of the same
	// name left at the path itself, so a regular file is only written where Lstat found nothing.
	absent, _ := guardEdges(up, condNonNil(func(v ssa.Value) bool {
		ex, ok := v.(*ssa.Extract)
		if !ok || ex.Index != 1 {
			return false
		}
		lc, ok := ex.Tuple.(*ssa.Call)
		return ok && refOf(lc.Common()).is("os", "", "Lstat") && isFull(lc.Call.Args[0])
	}))
	neff := 0
	forEachInstr(up, func(b *ssa.BasicBlock, _ int, in ssa.Instruction) {
		c := callOf(in)
		if c == nil {
			return
		}
		prim, ok := mutatorOf(c)
		if !ok {
			return
		}
		neff++
		site := fmt.Sprintf("%s:%s@%s", fa.key, prim, exprShort(p, up, in))
		pos := p.Pos(in.Pos())
		// path argument must be fullPath or filepath.Dir(fullPath)
		var parg ssa.Value
		switch prim {
		case "os.Symlink":
			parg = c.Args[1]
		default:
			parg = c.Args[0]
		}
		okPath := isFull(parg)
		if dc, _ := callValue(parg); dc != nil && refOf(dc.Common()).is("path/filepath", "", "Dir") && isFull(dc.Call.Args[0]) {
			okPath = true
		}
		if !okPath {
			r.Fail("D4-containment", site, pos, prim+" is applied to a path that is not the checked path.Join(dir, cleaned entry name) (or its parent)")
			return
		}
		lex := len(okEq) > 0 && len(okPre) > 0 && onlyVia(up, b, okEq) && onlyVia(up, b, okPre)
		con := len(inside) > 0 && onlyVia(up, b, inside)
		switch {
		case !lex:
			r.Fail("D4-containment", site+":lexical", pos, prim+" is reachable for an entry whose cleaned name was not checked against '..' / '../': a crafted name escapes the target directory")
		case !con:
			r.Fail("D4-containment", site, pos, prim+" is reachable without pathOutsideBaseDirectory(dir, fullPath) having returned false for this path: through a symlinked parent it creates or writes outside the target directory")
		default:
			r.OK("D4-containment", site, pos, "after the lexical test and the containment check")
		}
		if prim == "os.WriteFile" {
			r.Check(len(absent) > 0 && onlyVia(up, b, absent), "D4-containment", site+":nothing-there-yet", pos, "written only where os.Lstat(fullPath) found nothing", "a regular file is written at a path that may already hold something (os.Lstat(fullPath) is not consulted on every path): os.WriteFile follows a symlink left there by an earlier entry of the same name and writes outside the target directory")
		}
	})
	r.Instances("D4-containment", "effect sites in unpack", neff, 5)

	// D5 pathOutsideBaseDirectory
	fb := newFA(p, r, pob)
	var rel *ssa.Call
	forEachInstr(pob, func(_ *ssa.BasicBlock, _ int, in ssa.Instruction) {
		if c, ok := in.(*ssa.Call); ok && refOf(c.Common()).is("path/filepath", "", "Rel") {
			rel = c
		}
	})
	if rel == nil {
		r.Fail("D5-no-prefix-confusion", fb.key+":rel", p.Pos(pob.Pos()), "containment is not decided with filepath.Rel: a string-prefix test accepts sibling directories whose name starts with the base directory's name")
		return
	}
	r.Check(rel.Call.Args[0] == ssa.Value(pob.Params[0]), "D5-no-prefix-confusion", fb.key+":rel-base", p.Pos(rel.Pos()), "Rel(baseDir, resolved parent)", "filepath.Rel is not computed against the base directory")
	relv := func(v ssa.Value) bool {
		ex, ok := v.(*ssa.Extract)
		return ok && ex.Tuple == ssa.Value(rel) && ex.Index == 0
	}
	relErr := func(v ssa.Value) bool {
		ex, ok := v.(*ssa.Extract)
		return ok && ex.Tuple == ssa.Value(rel) && ex.Index == 1
	}
	hasEq, hasPre := false, false
	forEachInstr(pob, func(_ *ssa.BasicBlock, _ int, in ssa.Instruction) {
		switch x := in.(type) {
		case *ssa.BinOp:
			if x.Op == token.EQL {
				if s, ok := constString(x.Y); ok && s == ".." && relv(x.X) {
					hasEq = true
				}
			}
		case *ssa.Call:
			if refOf(x.Common()).is("strings", "", "HasPrefix") && relv(x.Call.Args[0]) {
				// second arg: ".." + separator
				if bo, ok := x.Call.Args[1].(*ssa.BinOp); ok && bo.Op == token.ADD {
					if s, ok := constString(bo.X); ok && s == ".." {
						hasPre = true
					}
				}
				if s, ok := constString(x.Call.Args[1]); ok && (s == "../" || s == "..\\") {
					hasPre = true
				}
			}
		}
	})
	r.Check(hasEq && hasPre, "D5-no-prefix-confusion", fb.key+":both-forms", p.Pos(rel.Pos()), "outside iff rel == \"..\" or rel starts with \"../\"", fmt.Sprintf("the Rel-based containment test must reject both rel == \"..\" (%v) and the \"..\"+separator prefix (%v): otherwise the parent directory itself, or everything above it, counts as inside", hasEq, hasPre))
	// errors count as outside
	for _, pr := range []func(ssa.Value) bool{relErr} {
		holds, _ := guardEdges(pob, condNonNil(pr))
		for _, ed := range holds {
			fb.noPath("D5-no-prefix-confusion", "error-means-outside", edgeStart(ed), func(in ssa.Instruction) bool {
				ret, ok := in.(*ssa.Return)
				if !ok {
					return false
				}
				b, isB := constBool(retVal(ret, 0))
				return !(isB && b)
			}, nil, nil, "an error yields 'outside'", "when the relative path cannot be computed the path is treated as inside the base directory")
		}
	}
	// a parent that cannot be resolved means 'outside' — except when it does not exist yet: only then
	// may the check go on (to an ancestor, or to 'inside')
	var evals []*ssa.Call
	forEachInstr(pob, func(_ *ssa.BasicBlock, _ int, in ssa.Instruction) {
		if c, ok := in.(*ssa.Call); ok && refOf(c.Common()).is("path/filepath", "", "EvalSymlinks") {
			evals = append(evals, c)
		}
	})
	if len(evals) > 0 {
		var evalErr func(v ssa.Value, d int) bool
		evalErr = func(v ssa.Value, d int) bool {
			switch x := v.(type) {
			case *ssa.Extract:
				c, isC := x.Tuple.(*ssa.Call)
				return isC && x.Index == 1 && refOf(c.Common()).is("path/filepath", "", "EvalSymlinks")
			case *ssa.Phi:
				if d > 4 {
					return false
				}
				for _, e := range x.Edges {
					if !evalErr(e, d+1) {
						return false
					}
				}
				return len(x.Edges) > 0
			}
			return false
		}
		failed, _ := guardEdges(pob, condNonNil(func(v ssa.Value) bool { return evalErr(v, 0) }))
		notExist, _ := guardEdges(pob, condCall(func(c *ssa.Call) bool {
			return refOf(c.Common()).is("errors", "", "Is") && len(c.Call.Args) == 2 && evalErr(c.Call.Args[0], 0) && loadsGlobal(c.Call.Args[1], "io/fs", "ErrNotExist")
		}))
		cut := edgeSet{}
		for _, e := range notExist {
			cut[e] = true
		}
		bad := ""
		for _, ed := range failed {
			w := searchPath(Point{ed.From, len(ed.From.Instrs) - 1}, ed.Succ, func(in ssa.Instruction) bool {
				if ret, ok := in.(*ssa.Return); ok {
					b, isB := constBool(retVal(ret, 0))
					return !(isB && b)
				}
				c, ok := in.(*ssa.Call)
				return ok && refOf(c.Common()).is("path/filepath", "", "EvalSymlinks")
			}, nil, cut)
			if w != nil {
				bad = strings.Join(w, "→")
			}
		}
		// 'inside' is answered only for a parent that was resolved: a shortcut that looks at the last
		// component only (Lstat) follows symlinks in the components before it
		unresolved := ""
		for _, ret := range returnsOf(pob) {
			if b, isB := constBool(retVal(ret, 0)); isB && b {
				continue
			}
			dom := false
			for _, ev := range evals {
				if ev.Block().Dominates(ret.Block()) {
					dom = true
				}
			}
			if !dom {
				unresolved = p.Pos(ret.Pos())
			}
		}
		r.Check(unresolved == "", "D5-no-prefix-confusion", fb.key+":inside-only-after-resolution", p.Pos(evals[0].Pos()), "every answer other than 'outside' comes after filepath.EvalSymlinks of the parent", "pathOutsideBaseDirectory can answer 'inside' without having resolved the parent directory (at "+unresolved+"): a test of the last path component alone (Lstat, IsDir) does not see a symlink in an earlier component, so an entry two levels below a link that leaves the target directory is written outside it")
		r.Check(len(failed) > 0 && bad == "", "D5-no-prefix-confusion", fb.key+":unresolvable-means-outside", p.Pos(evals[0].Pos()), "after a failed EvalSymlinks only fs.ErrNotExist lets the check continue", "when the parent directory cannot be resolved for a reason other than 'does not exist yet' (a path longer than PATH_MAX reached through short symlink aliases, a loop, a permission error) the check goes on to an ancestor or answers 'inside' instead of 'outside': the kernel can still walk that directory, so the entry is written through it to wherever it leads; witness path (SSA blocks): "+bad)
	}
	// no HasPrefix(x, baseDir) decisions left
	forEachInstr(pob, func(_ *ssa.BasicBlock, _ int, in ssa.Instruction) {
		if c, ok := in.(*ssa.Call); ok && refOf(c.Common()).is("strings", "", "HasPrefix") && c.Call.Args[1] == ssa.Value(pob.Params[0]) {
			r.Fail("D5-no-prefix-confusion", fb.key+":prefix", p.Pos(c.Pos()), "containment decided by strings.HasPrefix(path, baseDir): <base>-evil passes as inside <base>")
		}
	})
}

func exprShort(p *Prog, fn *ssa.Function, in ssa.Instruction) string {
	// distinguish call sites by the enclosing switch arm: use the order of appearance
	n := 0
	out := ""
	forEachInstr(fn, func(_ *ssa.BasicBlock, _ int, x ssa.Instruction) {
		if c := callOf(x); c != nil {
			if _, ok := mutatorOf(c); ok {
				n++
				if x == in {
					out = fmt.Sprint("#", n)
				}
			}
		}
	})
	return out
}

func c06Image(p *Prog, r *Report) {
	const ipkg = "artifact/image/layerscanning/image"
	fill := p.Func(ipkg, "fillChainLayersWithFilesFromTar")
	if fill == nil {
		r.Undecided("D6-image-paths", "anchor:fill", "-", "not found")
		return
	}
	ff := newFA(p, r, fill)
	isClean := func(v ssa.Value) bool {
		c, _ := callValue(v)
		return c != nil && refOf(c.Common()).is("path", "", "Clean")
	}
	zip := condCall(func(c *ssa.Call) bool {
		if !refOf(c.Common()).is("strings", "", "HasPrefix") || !isClean(c.Call.Args[0]) {
			return false
		}
		s, ok := constString(c.Call.Args[1])
		return ok && s == "../"
	})
	_, okZip := guardEdges(fill, zip)
	// realFilePath = filepath.Join(dirPath, FromSlash(cleaned))
	isReal := func(v ssa.Value) bool {
		c, _ := callValue(v)
		if c == nil || !refOf(c.Common()).is("path/filepath", "", "Join") {
			return false
		}
		args := flattenVariadic(c.Call.Args)
		if len(args) != 2 || args[0] != ssa.Value(fill.Params[3]) {
			return false
		}
		fc, _ := callValue(args[1])
		return fc != nil && refOf(fc.Common()).is("path/filepath", "", "FromSlash") && isClean(fc.Call.Args[0])
	}
	n := 0
	forEachInstr(fill, func(b *ssa.BasicBlock, _ int, in ssa.Instruction) {
		c, ok := in.(*ssa.Call)
		if !ok || c.Call.StaticCallee() == nil {
			return
		}
		name := c.Call.StaticCallee().Name()
		if name != "handleFile" && name != "handleDir" {
			return
		}
		n++
		site := ff.key + ":" + name
		r.Check(isReal(c.Call.Args[1]), "D6-image-paths", site+":path", p.Pos(c.Pos()), "real path = Join(layer dir, cleaned name)", "the on-disk path handed to "+name+" is not filepath.Join(<layer dir>, <cleaned entry name>)")
		r.Check(len(okZip) > 0 && onlyVia(fill, b, okZip), "D6-image-paths", site+":zipslip", p.Pos(c.Pos()), "after the '../' test", name+" is reachable for an entry whose cleaned name starts with '../': files are written outside the image's extraction directory")
	})
	r.Instances("D6-image-paths", "disk-writing handlers called from the fill routine", n, 2)
	// effects inside the image package: only in handleFile/handleDir/FromV1Image/CleanUp etc.; never Symlink/Link
	allowed := map[string]map[string]bool{
		ipkg + ".Image.handleFile":              {"os.MkdirAll": true, "os.OpenFile(write)": true},
		ipkg + ".Image.handleDir":               {"os.MkdirAll": true},
		ipkg + ".FromV1Image":                   {"os.MkdirTemp": true, "os.Mkdir": true},
		ipkg + ".Image.CleanUp":                 {"os.RemoveAll": true},
		ipkg + ".removeUnnecessaryFileNodes":    {"os.Remove": true},
		ipkg + ".addRootDirectoryToChainLayers": {"os.Mkdir": true, "os.MkdirAll": true},
	}
	for _, fn := range p.FuncsIn(ipkg) {
		key := tableKey(allowed, fn)
		forEachInstr(fn, func(_ *ssa.BasicBlock, _ int, in ssa.Instruction) {
			c := callOf(in)
			if c == nil {
				return
			}
			prim, ok := mutatorOf(c)
			if !ok {
				return
			}
			if allowed[key][prim] {
				r.Audit("D6-image-paths", key+":"+prim, p.Pos(in.Pos()), "part of writing the layer files below the image's own extraction directory / its clean-up")
				return
			}
			r.Fail("D6-image-paths", key+":"+prim, p.Pos(in.Pos()), prim+" in the layer-scanning package outside the audited writers (symlinks and hard links must stay virtual; nothing else may touch the disk)")
		})
	}
	// handleFile / handleDir write only at their realFilePath parameter (or its Dir)
	for _, name := range []string{"Image.handleFile", "Image.handleDir"} {
		fn := p.Func(ipkg, name)
		if fn == nil {
			continue
		}
		real := fn.Params[1]
		forEachInstr(fn, func(_ *ssa.BasicBlock, _ int, in ssa.Instruction) {
			c := callOf(in)
			if c == nil {
				return
			}
			prim, ok := mutatorOf(c)
			if !ok {
				return
			}
			arg := c.Args[0]
			okk := arg == ssa.Value(real)
			if dc, _ := callValue(arg); dc != nil && refOf(dc.Common()).is("path/filepath", "", "Dir") && dc.Call.Args[0] == ssa.Value(real) {
				okk = true
			}
			r.Check(okk, "D6-image-paths", fnKey(fn)+":"+prim+":target", p.Pos(in.Pos()), "applied to the checked real path", prim+" in "+name+" is applied to a path other than the checked real path (or its parent)")
		})
	}
	// FromV1Image: every error return after MkdirTemp goes through handleImageError
	fv := p.Func(ipkg, "FromV1Image")
	hie := p.Func(ipkg, "handleImageError")
	if fv == nil || hie == nil {
		r.Undecided("D6-image-tempdir", "anchor:FromV1Image/handleImageError", "-", "not found")
	} else {
		fa := newFA(p, r, fv)
		var mk *ssa.Call
		forEachInstr(fv, func(_ *ssa.BasicBlock, _ int, in ssa.Instruction) {
			if c, ok := in.(*ssa.Call); ok && refOf(c.Common()).is("os", "", "MkdirTemp") {
				mk = c
			}
		})
		if mk == nil {
			r.Undecided("D6-image-tempdir", fa.key+":MkdirTemp", "-", "not found")
		} else {
			isErr := func(v ssa.Value) bool {
				ex, ok := v.(*ssa.Extract)
				return ok && ex.Tuple == ssa.Value(mk) && ex.Index == 1
			}
			_, okE := guardEdges(fv, condNonNil(isErr))
			for _, ed := range okE {
				fa.noPath("D6-image-tempdir", "error-exits-clean-up", edgeStart(ed), func(in ssa.Instruction) bool {
					ret, ok := in.(*ssa.Return)
					if !ok || isNilConst(retVal(ret, 1)) {
						return false
					}
					// returns handleImageError(...)'s results?
					c, _ := callValue(retVal(ret, 1))
					return !(c != nil && c.Call.StaticCallee() == hie)
				}, nil, nil, "every error exit after the temp dir exists returns handleImageError(...)", "FromV1Image can fail after creating its extraction directory without cleaning it up")
			}
		}
		// handleImageError calls CleanUp; CleanUp removes ExtractDir
		okC := false
		forEachInstr(hie, func(_ *ssa.BasicBlock, _ int, in ssa.Instruction) {
			if c := callOf(in); c != nil && refOf(c).Name == "CleanUp" {
				okC = true
			}
		})
		r.Check(okC, "D6-image-tempdir", fnKey(hie)+":cleanup", p.Pos(hie.Pos()), "handleImageError cleans up", "handleImageError no longer calls CleanUp")
		if cu := p.Func(ipkg, "Image.CleanUp"); cu != nil {
			okR := false
			forEachInstr(cu, func(_ *ssa.BasicBlock, _ int, in ssa.Instruction) {
				if c := callOf(in); c != nil && refOf(c).is("os", "", "RemoveAll") && loadsField(c.Args[0], "Image", "ExtractDir") {
					okR = true
				}
			})
			r.Check(okR, "D6-image-tempdir", fnKey(cu)+":removes-extract-dir", p.Pos(cu.Pos()), "os.RemoveAll(img.ExtractDir)", "CleanUp does not remove the image's extraction directory")
		}
	}
	// UnpackSquashed: defer RemoveAll(tarDir) right after MkdirTemp
	us := p.Func("artifact/image/unpack", "Unpacker.UnpackSquashed")
	if us != nil {
		fa := newFA(p, r, us)
		var mk *ssa.Call
		var df ssa.Instruction
		forEachInstr(us, func(_ *ssa.BasicBlock, _ int, in ssa.Instruction) {
			if c, ok := in.(*ssa.Call); ok && refOf(c.Common()).is("os", "", "MkdirTemp") {
				mk = c
			}
		})
		if mk != nil {
			forEachInstr(us, func(_ *ssa.BasicBlock, _ int, in ssa.Instruction) {
				d, ok := in.(*ssa.Defer)
				if !ok {
					return
				}
				if cl, ok := d.Call.Value.(*ssa.MakeClosure); ok {
					inner := cl.Fn.(*ssa.Function)
					forEachInstr(inner, func(_ *ssa.BasicBlock, _ int, in2 ssa.Instruction) {
						if c := callOf(in2); c != nil && refOf(c).is("os", "", "RemoveAll") {
							df = in
						}
					})
				}
			})
			isErr := func(v ssa.Value) bool {
				ex, ok := v.(*ssa.Extract)
				return ok && ex.Tuple == ssa.Value(mk) && ex.Index == 1
			}
			_, okE := guardEdges(us, condNonNil(isErr))
			if df == nil {
				r.Fail("D6-image-tempdir", fa.key+":defer-remove", p.Pos(mk.Pos()), "UnpackSquashed does not defer the removal of its temp directory")
			}
			for _, ed := range okE {
				if df != nil {
					fa.noPath("D6-image-tempdir", "tempdir-removed", edgeStart(ed), isReturn, instrIs(df), nil, "removal deferred before any exit", "UnpackSquashed can return without having deferred the removal of its temp directory")
				}
			}
		}
	}
	_ = sort.Strings
	_ = strings.Join
}

// c06LinkInterpretation: symlink.TargetOutsideRoot(path, name) reads an absolute name as relative to
// the image root and a relative name as relative to the link's directory. unpack must create the link
// under the same reading: Join(dir, name) only on the filepath.IsAbs(name) edge, the bare name
// otherwise. Re-rooting a relative name (e.g. for hard links) after it was checked relative to the
// link's directory lets a name with leading ".." segments point above the target directory.
func c06LinkInterpretation(p *Prog, r *Report) {
	up := p.Func("artifact/image/unpack", "unpack")
	if up == nil {
		return
	}
	var tor *ssa.Call
	forEachInstr(up, func(_ *ssa.BasicBlock, _ int, in ssa.Instruction) {
		if c, ok := in.(*ssa.Call); ok && refOf(c.Common()).is(fp("artifact/image/symlink"), "", "TargetOutsideRoot") {
			tor = c
		}
	})
	if tor == nil {
		r.Fail("D8-link-interpretation", "unpack.unpack:check", p.Pos(up.Pos()), "unpack no longer checks link names with symlink.TargetOutsideRoot")
		return
	}
	name := tor.Call.Args[1]
	isAbs := func(c ssa.Value) (bool, bool) {
		call, ok := c.(*ssa.Call)
		if ok && refOf(call.Common()).is("path/filepath", "", "IsAbs") && (call.Call.Args[0] == name || renderValueDeep(call.Call.Args[0]) == renderValueDeep(name)) {
			return true, true
		}
		return false, false
	}
	holds, _ := guardEdges(up, isAbs)
	n := 0
	forEachInstr(up, func(b *ssa.BasicBlock, _ int, in ssa.Instruction) {
		c, ok := in.(*ssa.Call)
		if !ok || !refOf(c.Common()).is("path/filepath", "", "Join") {
			return
		}
		args := flattenVariadic(c.Call.Args)
		if len(args) != 2 || args[0] != ssa.Value(up.Params[0]) {
			return
		}
		if args[1] != name && renderValueDeep(args[1]) != renderValueDeep(name) {
			return
		}
		n++
		ok2 := len(holds) > 0 && !reachable(tor.Block(), edgesOf(holds), nil)[b]
		r.Check(ok2, "D8-link-interpretation", "unpack.unpack:re-root", p.Pos(c.Pos()), "Join(dir, name) only when the name is absolute", "a link name is re-rooted under the target directory although it is not absolute: TargetOutsideRoot judged it relative to the link's own directory, so a relative name with as many '..' segments as the link is deep passes the check and, re-rooted, points above the target directory")
	})
	r.Instances("D8-link-interpretation", "re-rooting of link names in unpack", n, 1)
}
