package main

import (
	"fmt"
	"go/token"
	"strings"

	"golang.org/x/tools/go/ssa"
)

func init() {
	register(&PropDef{
		ID:       "C10",
		Patterns: []string{"./extractor/filesystem", "./extractor/filesystem/internal", ".", "./extractor/standalone", "./detector", "./artifact/image/layerscanning/image", "./artifact/image/unpack"},
		Explain: "Decided: D1 inode limit — the visit counter is incremented and compared (normalised to 'fail iff visited > limit, limit > 0') before anything else the callback does, the failing edge returns a non-nil error; " +
			"D2 size limit — every dispatch is reachable only when the limit is off or the size obtained from the lazy Stat of the current path (following symlinks, via fileSize(wc.fileAPI)) was compared with '> limit' and passed; the memoised size only ever carries a value that passed; " +
			"D3 cancellation — ctx.Err()!=nil is tested before any per-file work in the callback and before each plugin call inside the loops of standalone.Run and detector.Run, and its true edge returns ctx.Err(); " +
			"D4 image byte limit — bytes written for a layer file come from io.LimitReader(_, MaxFileBytes), a node is returned only when copied < MaxFileBytes (>=, so 'at the limit' is rejected), the limit error makes the caller skip the entry; unpack skips entries with Size > max before reading. " +
			"Added in round 2: D1 additionally: the visit counter is written only by its increment (never reset per scan root). Added in round 8: D7 the walker hands every callback/recursion error up (shared with C01/C08/C09), so limit and cancellation errors are reported on every kind of file system. NOT decided: counts over concrete trees, behaviour at a cancellation inside the k-th extraction (schedules).",
		Run: runC10,
		Controls: []Mutant{
			{Name: "inode-geq", File: "extractor/filesystem/filesystem.go", Old: "wc.maxInodes > 0 && wc.inodesVisited > wc.maxInodes", New: "wc.maxInodes > 0 && wc.inodesVisited >= wc.maxInodes", Rule: "D1-inodes", Site: "comparison"},
			{Name: "inode-after-stats", File: "extractor/filesystem/filesystem.go", Old: "	if wc.maxInodes > 0 && wc.inodesVisited > wc.maxInodes {\n		return fmt.Errorf(\"maxInodes (%d) exceeded\", wc.maxInodes)\n	}\n\n	wc.stats.AfterInodeVisited(path)\n	if wc.ctx.Err() != nil {\n		return wc.ctx.Err()\n	}", New: "	wc.stats.AfterInodeVisited(path)\n	if wc.ctx.Err() != nil {\n		return wc.ctx.Err()\n	}\n	if fserr == nil && wc.maxInodes > 0 && wc.inodesVisited > wc.maxInodes {\n		return fmt.Errorf(\"maxInodes (%d) exceeded\", wc.maxInodes)\n	}", Rule: "D1-inodes", Site: "first"},
			{Name: "size-geq", File: "extractor/filesystem/filesystem.go", Old: "if fSize > int64(wc.maxFileSize) {", New: "if fSize >= int64(wc.maxFileSize) {", Rule: "D2-size", Site: "comparison"},
			{Name: "size-from-direntry", File: "extractor/filesystem/filesystem.go", Old: "fSize, err = fileSize(wc.fileAPI)", New: "var info fs.FileInfo\n\t\t\t\tinfo, err = d.Info()\n\t\t\t\tif err == nil {\n\t\t\t\t\tfSize = info.Size()\n\t\t\t\t}", Rule: "D2-size", Site: "source"},
			{Name: "ctx-test-dropped", File: "extractor/filesystem/filesystem.go", Old: "	if wc.ctx.Err() != nil {\n		return wc.ctx.Err()\n	}\n	if fserr != nil {", New: "	if fserr != nil {", Rule: "D3-cancel", Site: "handleFile"},
			{Name: "detector-ctx-outside-loop", File: "detector/detector.go", Old: "	for _, d := range detectors {\n		if ctx.Err() != nil {\n			return nil, nil, ctx.Err()\n		}", New: "	if ctx.Err() != nil {\n		return nil, nil, ctx.Err()\n	}\n	for _, d := range detectors {", Rule: "D3-cancel", Site: "detector"},
			{Name: "image-limit-gt", File: "artifact/image/layerscanning/image/image.go", Old: "if numBytes >= img.config.MaxFileBytes || errors.Is(err, io.EOF) {", New: "if numBytes > img.config.MaxFileBytes || errors.Is(err, io.EOF) {", Rule: "D4-image", Site: "comparison"},
			{Name: "image-no-limitreader", File: "artifact/image/layerscanning/image/image.go", Old: "io.Copy(f, io.LimitReader(tarReader, img.config.MaxFileBytes))", New: "io.Copy(f, tarReader)", Rule: "D4-image", Site: "LimitReader"},
			{Name: "inode-counter-reset-per-root", File: "extractor/filesystem/filesystem.go", Old: "	wc.foundInv = make(map[string]bool)\n	return nil\n", New: "	wc.foundInv = make(map[string]bool)\n	wc.inodesVisited = 0\n	return nil\n", Rule: "D1-inodes", Site: "inodesVisited"},
		},
		Neutral: handleFileNeutral,
	})
}

func runC10(p *Prog, r *Report) {
	r.Rule("D1-inodes", "inode counter incremented and tested first; fail iff visited > limit (limit>0)")
	r.Rule("D2-size", "dispatch only if limit off or lazy-stat size ≤ limit; memo carries only passed sizes")
	r.Rule("D3-cancel", "ctx.Err() tested before per-file work and before every plugin call; returns ctx.Err()")
	r.Rule("D4-image", "layer files limited by LimitReader and rejected at >= MaxFileBytes; unpack skips Size > max")
	e := resolveEngine(p, r, "D1-inodes")
	if !e.ok() {
		return
	}
	c10Inodes(p, r, e)
	counterOnlyIncrements(p, r, "D1-inodes", "walkContext", "inodesVisited", "extractor/filesystem", "the inode visit counter is written other than by its increment (e.g. reset for every scan root): the limit stops being a bound on the whole scan — k roots may visit k × MaxInodes inodes and the scan still succeeds")
	c10Size(p, r, e)
	// the size the limit is compared with is the current file's: the lazy stat cache is reset for
	// every file (shared with C01 D1-fileapi)
	checkFileAPI(p, r, e, "D2-size")
	c10Cancel(p, r, e)
	// "limit exceeded" and "cancelled" are errors the callback returns: they are reported only if the
	// walker hands every callback/recursion error up, on every kind of file system (shared with C01)
	r.Rule("D7-walk", "the walker returns what the callback and the recursion returned (shared with C01/C08/C09)")
	c01Walker(p, r, e)
	c10Image(p, r)
	r.Rule("D5-config-plumbing", "every extraction the scanner configures runs under the scan's own limits")
	configPlumbing(p, r, "D5-config-plumbing")
}

func c10Inodes(p *Prog, r *Report, e *engine) {
	hf := newFA(p, r, e.handleFile)
	// increment: store to inodesVisited of (load inodesVisited + 1)
	var inc *ssa.Store
	forEachInstr(hf.fn, func(_ *ssa.BasicBlock, _ int, in ssa.Instruction) {
		st, ok := in.(*ssa.Store)
		if !ok || !storesField("walkContext", "inodesVisited")(in) {
			return
		}
		if bo, ok := st.Val.(*ssa.BinOp); ok && bo.Op == token.ADD && loadsField(bo.X, "walkContext", "inodesVisited") {
			if k, ok := constInt(bo.Y); ok && k == 1 {
				inc = st
			}
		}
	})
	if inc == nil {
		r.Fail("D1-inodes", hf.key+":increment", p.Pos(hf.fn.Pos()), "the visited-inode counter is not incremented by one per callback invocation")
		return
	}
	w := findPath(entryPoint(hf.fn), isReturn, instrIs(inc), nil)
	r.Check(w == nil && !inLoop(inc.Block()), "D1-inodes", hf.key+":increment", p.Pos(inc.Pos()), "incremented exactly once on every path", "some path through the callback does not count the inode (or counts it in a loop)")
	// comparison
	exceeded := condCmp(isFieldLoad("walkContext", "inodesVisited"), isFieldLoad("walkContext", "maxInodes"), token.GTR)
	enabled := condCmp(isFieldLoad("walkContext", "maxInodes"), isConstInt(0), token.GTR)
	exH, exF := guardEdges(hf.fn, exceeded)
	enH, enF := guardEdges(hf.fn, enabled)
	if len(exH) != 1 || len(enH) != 1 {
		// maybe a different but equivalent/inequivalent operator
		r.Fail("D1-inodes", hf.key+":comparison", p.Pos(inc.Pos()), fmt.Sprintf("expected exactly one test 'inodesVisited > maxInodes' and one 'maxInodes > 0' (found %d / %d): with the counter incremented first, any other operator fails one inode early or late", len(exH), len(enH)))
		return
	}
	// the compare happens after the increment
	cmpBlk := exH[0].From
	incFirst := inc.Block().Dominates(cmpBlk)
	r.Check(incFirst, "D1-inodes", hf.key+":comparison", p.Pos(cmpBlk.Instrs[len(cmpBlk.Instrs)-1].Pos()), "increment, then fail iff visited > limit", "the limit comparison does not follow the increment: the bound is off by one")
	// exceeded edge returns non-nil error on all paths
	hf.noPath("D1-inodes", "exceeded-fails", edgeStart(exH[0]), retIsNil(0), nil, nil, "exceeding the limit returns an error", "exceeding the inode limit can return nil: the scan continues past the limit")
	hf.noPath("D1-inodes", "exceeded-stops", edgeStart(exH[0]), func(in ssa.Instruction) bool { _, ok := in.(*ssa.Call); return ok && in.(*ssa.Call).Call.IsInvoke() }, nil, nil, "no plugin/stat work after the limit is exceeded", "after the limit is exceeded the callback still calls into plugins or the file system")
	// D1 first: every invoke / first-party call in the callback is reachable only via pass edges
	pass := append(append([]Edge{}, exF...), enF...)
	n := 0
	forEachInstr(hf.fn, func(b *ssa.BasicBlock, _ int, in ssa.Instruction) {
		c, ok := in.(*ssa.Call)
		if !ok {
			return
		}
		rf := refOf(c.Common())
		if rf.Pkg == "sync" || rf.Pkg == "fmt" || rf.Pkg == "builtin" {
			return
		}
		if !(c.Call.IsInvoke() || p.firstPartyRef(rf)) {
			return
		}
		n++
		if !onlyVia(hf.fn, b, pass) {
			r.Fail("D1-inodes", hf.key+":first:"+rf.String(), p.Pos(c.Pos()), "call of "+rf.String()+" can execute before the inode limit was checked: more than the limit's worth of inodes is processed")
		}
	})
	r.OK("D1-inodes", hf.key+":first", p.Pos(hf.fn.Pos()), fmt.Sprintf("%d calls all behind the limit test", n))
	r.Instances("D1-inodes", "calls in the callback behind the limit", n, 8)
}

func (p *Prog) firstPartyRef(rf CallRef) bool {
	return len(rf.Pkg) >= len(modPath) && rf.Pkg[:len(modPath)] == modPath
}

func c10Size(p *Prog, r *Report, e *engine) {
	hf := newFA(p, r, e.handleFile)
	disp := e.dispatchCall
	// source: fileSize(wc.fileAPI), or its body written out: wc.fileAPI.Stat() then info.Size()
	fsz, size, onAPI := e.sizeSource()
	if fsz == nil {
		r.Fail("D2-size", hf.key+":source", p.Pos(disp.Pos()), "the size used for the limit is not obtained with fileSize(wc.fileAPI) (the lazy, symlink-following Stat of the current path): e.g. a DirEntry's Info() reports the size of a symlink, not of its target")
		return
	}
	r.Check(onAPI, "D2-size", hf.key+":source", p.Pos(fsz.Pos()), "fileSize(wc.fileAPI)", "fileSize is not asked about the walk's lazy file API (current path)")
	if fb := e.fileSize; fb != nil {
		// fileSize body: file.Stat() then info.Size()
		okBody := false
		forEachInstr(fb, func(_ *ssa.BasicBlock, _ int, in ssa.Instruction) {
			if c, ok := in.(*ssa.Call); ok && c.Call.IsInvoke() && c.Call.Method.Name() == "Size" {
				if derivesFrom(c.Call.Value, func(v ssa.Value) bool {
					cc, _ := callValue(v)
					return cc != nil && cc.Call.IsInvoke() && cc.Call.Method.Name() == "Stat" && cc.Call.Value == fb.Params[0]
				}, deriveOpts{}) {
					for _, ret := range returnsOf(fb) {
						if retVal(ret, 0) == ssa.Value(c) {
							okBody = true
						}
					}
				}
			}
		})
		r.Check(okBody, "D2-size", fnKey(fb)+":body", p.Pos(fb.Pos()), "returns file.Stat().Size()", "fileSize no longer returns the Size() of the file's Stat()")
	} else {
		r.OK("D2-size", "extractor/filesystem.fileSize:body", p.Pos(fsz.Pos()), "written out in the walk callback: wc.fileAPI.Stat() then Size()")
	}
	// comparison: size > int64(maxFileSize)
	tooBig := condCmp(size, isFieldLoad("walkContext", "maxFileSize"), token.GTR)
	enabled := condCmp(isFieldLoad("walkContext", "maxFileSize"), isConstInt(0), token.GTR)
	tbH, tbF := guardEdges(hf.fn, tooBig)
	_, enF := guardEdges(hf.fn, enabled)
	if len(tbH) == 0 {
		r.Fail("D2-size", hf.key+":comparison", p.Pos(fsz.Pos()), "no test 'size > maxFileSize' on the stat'ed size (a '>=' would also reject files exactly at the limit; any other form is not recognised)")
		return
	}
	r.OK("D2-size", hf.key+":comparison", p.Pos(tbH[0].From.Instrs[len(tbH[0].From.Instrs)-1].Pos()), "size > int64(maxFileSize)")
	// memo test: fSize == -1
	var memoPhi *ssa.Phi
	memo := func(c ssa.Value) (bool, bool) {
		op, x, y, ok := cmpNorm(c)
		if !ok || (op != token.EQL && op != token.NEQ) {
			return false, false
		}
		if k, ok := constInt(y); ok && k == -1 {
			if ph, ok := x.(*ssa.Phi); ok {
				memoPhi = ph
				return true, op == token.EQL
			}
		}
		return false, false
	}
	_, memoF := guardEdges(hf.fn, memo) // edges where fSize != -1 (already checked)
	edges := append(append(append([]Edge{}, tbF...), enF...), memoF...)
	r.Check(onlyVia(hf.fn, disp.Block(), edges), "D2-size", hf.key+":dispatch-guarded", p.Pos(disp.Pos()), "dispatch only via limit-off, size-passed or already-checked edges", "an extractor can be handed a file whose size was not checked against MaxFileSize")
	// memo soundness: the memoised variable only takes -1 or a size that passed the comparison
	if len(memoF) > 0 && memoPhi != nil {
		seen := map[*ssa.Phi]bool{}
		sound := true
		var rec func(ph *ssa.Phi)
		rec = func(ph *ssa.Phi) {
			if seen[ph] {
				return
			}
			seen[ph] = true
			for i, ed := range ph.Edges {
				switch x := ed.(type) {
				case *ssa.Phi:
					rec(x)
				case *ssa.Const:
					if k, ok := constInt(x); !ok || k != -1 {
						sound = false
					}
				default:
					if !size(ed) {
						sound = false
						continue
					}
					// incoming edge from pred i must be the pass edge of the comparison
					pred := ph.Block().Preds[i]
					isPass := false
					for _, pe := range tbF {
						if pe.From == pred && pe.To() == ph.Block() {
							isPass = true
						}
					}
					if !isPass {
						sound = false
					}
				}
			}
		}
		rec(memoPhi)
		r.Check(sound, "D2-size", hf.key+":memo", p.Pos(disp.Pos()), "the memoised size is -1 or a size that passed the limit", "the 'already checked' shortcut can be taken with a size that never passed the limit comparison: a second extractor gets an oversized file")
	}
	// too-big edge: returns without dispatch
	for _, ed := range tbH {
		hf.noPath("D2-size", "oversize-not-dispatched", edgeStart(ed), instrIs(disp), nil, nil, "an oversized file is dispatched to no extractor", "after the size check failed the file can still reach an extractor")
	}
	// lazy Stat follows symlinks: fs.Stat (not Lstat) of currentPath — checked in C01/C09 D*-lazystat
	ls := e.lazyStat
	usesStat := false
	forEachInstr(ls, func(_ *ssa.BasicBlock, _ int, in ssa.Instruction) {
		if c, ok := in.(*ssa.Call); ok && refOf(c.Common()).is("io/fs", "", "Stat") && loadsField(c.Call.Args[1], "lazyFileAPI", "currentPath") {
			usesStat = true
		}
	})
	r.Check(usesStat, "D2-size", fnKey(ls)+":stat", p.Pos(ls.Pos()), "fs.Stat(fs, currentPath)", "the lazy file API does not fs.Stat the current path")
}

func ctxErrTest(fn *ssa.Function) CondPred {
	return condNonNil(func(v ssa.Value) bool {
		c, _ := callValue(v)
		return c != nil && c.Call.IsInvoke() && c.Call.Method.Name() == "Err" && c.Call.Value.Type().String() == "context.Context"
	})
}

func c10Cancel(p *Prog, r *Report, e *engine) {
	hf := newFA(p, r, e.handleFile)
	cancelled, live := guardEdges(hf.fn, ctxErrTest(hf.fn))
	if len(cancelled) == 0 {
		r.Fail("D3-cancel", hf.key+":test", p.Pos(hf.fn.Pos()), "the walk callback never tests ctx.Err(): a cancelled scan keeps extracting")
	} else {
		// all per-file work behind the live edge
		n := 0
		forEachInstr(hf.fn, func(b *ssa.BasicBlock, _ int, in ssa.Instruction) {
			c, ok := in.(*ssa.Call)
			if !ok {
				return
			}
			isWork := c == e.dispatchCall || (c.Call.IsInvoke() && (c.Call.Method.Name() == "FileRequired" || c.Call.Method.Name() == "Type")) || c.Call.StaticCallee() == e.shouldSkipDir || (e.fileSize != nil && c.Call.StaticCallee() == e.fileSize) || (c.Call.IsInvoke() && c.Call.Method.Name() == "Stat") || (e.lazyStat != nil && c.Call.StaticCallee() == e.lazyStat)
			if !isWork {
				return
			}
			n++
			if !onlyVia(hf.fn, b, live) {
				r.Fail("D3-cancel", hf.key+":"+refOf(c.Common()).String(), p.Pos(c.Pos()), "reachable without having seen ctx.Err()==nil: work starts on a further file after cancellation")
			}
		})
		r.OK("D3-cancel", hf.key+":work-behind-test", p.Pos(hf.fn.Pos()), fmt.Sprintf("%d per-file operations all behind ctx.Err()==nil", n))
		for _, ed := range cancelled {
			hf.noPath("D3-cancel", "cancelled-returns-error", edgeStart(ed), func(in ssa.Instruction) bool {
				ret, ok := in.(*ssa.Return)
				if !ok {
					return false
				}
				c, _ := callValue(retVal(ret, 0))
				return !(c != nil && c.Call.IsInvoke() && c.Call.Method.Name() == "Err")
			}, nil, nil, "cancellation returns ctx.Err()", "after cancellation the callback can return something other than ctx.Err() (nil keeps the walk going, and the scan reports success)")
		}
	}
	// plugin loops
	for _, t := range []struct{ pkg, fn, method, tag string }{{"extractor/standalone", "Run", "Extract", "standalone"}, {"detector", "Run", "Scan", "detector"}} {
		fn := p.Func(t.pkg, t.fn)
		if fn == nil {
			r.Undecided("D3-cancel", "anchor:"+t.pkg+".Run", "-", "not found")
			continue
		}
		fa := newFA(p, r, fn)
		var call *ssa.Call
		forEachInstr(fn, func(_ *ssa.BasicBlock, _ int, in ssa.Instruction) {
			if c, ok := in.(*ssa.Call); ok && c.Call.IsInvoke() && c.Call.Method.Name() == t.method {
				call = c
			}
		})
		if call == nil {
			r.Undecided("D3-cancel", fa.key+":"+t.tag+"-plugin-call", "-", "plugin call not found")
			continue
		}
		hdr := loopHeaderOf(call.Block())
		cancelled, live := guardEdges(fn, ctxErrTest(fn))
		// only tests inside the loop count
		var liveIn []Edge
		for _, ed := range live {
			if hdr != nil && hdr.Dominates(ed.From) && inLoop(ed.From) {
				liveIn = append(liveIn, ed)
			}
		}
		site := fa.key + ":" + t.tag + "-plugin-call"
		if hdr == nil || len(liveIn) == 0 {
			r.Fail("D3-cancel", site, p.Pos(call.Pos()), "no ctx.Err() test inside the plugin loop: after cancellation the remaining plugins still run")
			continue
		}
		r.Check(onlyVia(fn, call.Block(), liveIn), "D3-cancel", site, p.Pos(call.Pos()), "each plugin call is preceded by ctx.Err()==nil in the same iteration", "a plugin can be started in an iteration that did not check for cancellation")
		for _, ed := range cancelled {
			fa.noPath("D3-cancel", t.tag+"-cancelled-returns-error", edgeStart(ed), func(in ssa.Instruction) bool {
				ret, ok := in.(*ssa.Return)
				if !ok {
					return false
				}
				c, _ := callValue(retVal(ret, len(ret.Results)-1))
				return !(c != nil && c.Call.IsInvoke() && c.Call.Method.Name() == "Err")
			}, nil, nil, "cancellation returns ctx.Err()", "after cancellation "+fa.key+" can return without the context's error: the scan reports success although work remained")
		}
	}
}

func c10Image(p *Prog, r *Report) {
	const ipkg = "artifact/image/layerscanning/image"
	hf := p.Func(ipkg, "Image.handleFile")
	if hf == nil {
		r.Undecided("D4-image", "anchor:Image.handleFile", "-", "not found")
		return
	}
	fa := newFA(p, r, hf)
	var cp, lr *ssa.Call
	forEachInstr(hf, func(_ *ssa.BasicBlock, _ int, in ssa.Instruction) {
		if c, ok := in.(*ssa.Call); ok {
			rf := refOf(c.Common())
			if rf.is("io", "", "Copy") {
				cp = c
			}
			if rf.is("io", "", "LimitReader") {
				lr = c
			}
		}
	})
	maxBytes := func(v ssa.Value) bool { return isFieldLoad("Config", "MaxFileBytes")(v) }
	if cp == nil {
		r.Fail("D4-image", fa.key+":copy", p.Pos(hf.Pos()), "layer files are not written with io.Copy (the bounded-copy rule cannot be decided)")
		return
	}
	okLR := lr != nil && stripIface(cp.Call.Args[1]) == ssa.Value(lr) && maxBytes(lr.Call.Args[1])
	r.Check(okLR, "D4-image", fa.key+":LimitReader", p.Pos(cp.Pos()), "io.Copy(f, io.LimitReader(tar, MaxFileBytes))", "the bytes written to disk are not bounded by io.LimitReader(_, config.MaxFileBytes)")
	// every write to the created file goes through that copy: no other Write/WriteString/ReadFrom calls
	other := 0
	forEachInstr(hf, func(_ *ssa.BasicBlock, _ int, in ssa.Instruction) {
		if c, ok := in.(*ssa.Call); ok && c != cp {
			rf := refOf(c.Common())
			if rf.Recv == "File" && rf.Pkg == "os" && (rf.Name == "Write" || rf.Name == "WriteString" || rf.Name == "ReadFrom" || rf.Name == "WriteAt" || rf.Name == "Truncate") {
				other++
			}
			if rf.is("os", "", "WriteFile") || rf.is("io", "", "CopyN") || rf.is("io", "", "CopyBuffer") || rf.is("os", "", "Truncate") {
				other++
			}
		}
	})
	r.Check(other == 0, "D4-image", fa.key+":single-writer", p.Pos(hf.Pos()), "io.Copy is the only writer", "the file is also written (or sized: Truncate gives it the length the untrusted tar header claims) outside the bounded copy: more than MaxFileBytes can end up on disk")
	n := func(v ssa.Value) bool {
		ex, ok := v.(*ssa.Extract)
		return ok && ex.Tuple == ssa.Value(cp) && ex.Index == 0
	}
	atLimit := condCmp(n, maxBytes, token.GEQ)
	alH, alF := guardEdges(hf, atLimit)
	if len(alH) == 0 {
		r.Fail("D4-image", fa.key+":comparison", p.Pos(cp.Pos()), "no test 'copied >= MaxFileBytes' after the copy: with '>' a file of exactly the limit is exposed (and a longer one, truncated by the LimitReader to exactly the limit, too)")
		return
	}
	r.OK("D4-image", fa.key+":comparison", p.Pos(cp.Pos()), "copied >= MaxFileBytes rejects")
	// non-nil node returned only via the pass edge
	for i, ret := range returnsOf(hf) {
		if isNilConst(retVal(ret, 0)) {
			continue
		}
		okRet := onlyVia(hf, ret.Block(), alF)
		if !okRet && onlyVia(hf, ret.Block(), append(append([]Edge{}, alF...), alH...)) {
			// the comparison is passed on every path; no feasible path leads from its limit edge to
			// this return (the error the limit edge sets is tested before a node is built)
			okRet = true
			for _, ed := range alH {
				if findPathPSEdge(ed, func(in ssa.Instruction) bool { return in == ssa.Instruction(ret) }, nil) != nil {
					okRet = false
				}
			}
		}
		r.Check(okRet, "D4-image", fmt.Sprintf("%s:node-return#%d", fa.key, i), p.Pos(ret.Pos()), "a node is returned only when copied < MaxFileBytes", "a file node can be returned although the copy reached the byte limit")
	}
	// limit edge returns ErrFileReadLimitExceeded
	for _, ed := range alH {
		w := findPathPSEdge(ed, func(in ssa.Instruction) bool {
			ret, ok := in.(*ssa.Return)
			return ok && !(isNilConst(retVal(ret, 0)) && loadsGlobal(retVal(ret, 1), fp(ipkg), "ErrFileReadLimitExceeded"))
		}, nil)
		r.Check(w == nil, "D4-image", fa.key+":limit-returns-sentinel", p.Pos(ed.To().Instrs[0].Pos()), "reaching the limit returns (nil, ErrFileReadLimitExceeded)", "reaching the byte limit does not return (nil, ErrFileReadLimitExceeded); witness path (SSA blocks): "+strings.Join(w, "→"))
	}
	// caller: on error the entry is skipped (continue) or the fill aborts — never inserted
	fill := p.Func(ipkg, "fillChainLayersWithFilesFromTar")
	if fill == nil {
		r.Undecided("D4-image", "anchor:fillChainLayersWithFilesFromTar", "-", "not found")
	} else {
		ff := newFA(p, r, fill)
		var hcall *ssa.Call
		forEachInstr(fill, func(_ *ssa.BasicBlock, _ int, in ssa.Instruction) {
			if c, ok := in.(*ssa.Call); ok && c.Call.StaticCallee() == hf {
				hcall = c
			}
		})
		if hcall == nil {
			r.Fail("D4-image", ff.key+":call", p.Pos(fill.Pos()), "handleFile is not called from the fill routine")
		} else {
			// err phi: find "err != nil" test after the switch; from its true edge no path to an insert
			errTest := condNonNil(func(v ssa.Value) bool {
				return derivesFrom(v, func(x ssa.Value) bool {
					ex, ok := x.(*ssa.Extract)
					return ok && ex.Tuple == ssa.Value(hcall) && ex.Index == 1
				}, deriveOpts{})
			})
			holds, _ := guardEdges(fill, errTest)
			if len(holds) == 0 {
				r.Fail("D4-image", ff.key+":error-test", p.Pos(hcall.Pos()), "the error of handleFile is not tested by the fill routine")
			}
			hdr := loopHeaderOf(hcall.Block())
			for _, ed := range holds {
				ff.noPath("D4-image", "failed-entry-not-inserted", edgeStart(ed), func(in ssa.Instruction) bool {
					c, ok := in.(*ssa.Call)
					if !ok {
						return false
					}
					rf := refOf(c.Common())
					return rf.Name == "Insert" || rf.is(fp(ipkg), "", "fillChainLayersWithFileNode")
				}, func(in ssa.Instruction) bool { return hdr != nil && len(hdr.Instrs) > 0 && in == hdr.Instrs[0] }, nil,
					"an entry whose handling failed (limit exceeded) is never inserted into a view", "an entry whose handling failed can still be inserted into the layer views")
			}
		}
	}
	// unpack: header.Size > max → continue before any read
	up := p.Func("artifact/image/unpack", "unpack")
	if up == nil {
		r.Undecided("D4-image", "anchor:unpack.unpack", "-", "not found")
		return
	}
	fu := newFA(p, r, up)
	tooBig := condCmp(isFieldLoad("Header", "Size"), func(v ssa.Value) bool { return v == ssa.Value(up.Params[7]) }, token.GTR)
	_, pass := guardEdges(up, tooBig)
	if len(pass) == 0 {
		r.Fail("D4-image", fu.key+":size-test", p.Pos(up.Pos()), "unpack does not test header.Size > maxSizeBytes")
		return
	}
	forEachInstr(up, func(b *ssa.BasicBlock, _ int, in ssa.Instruction) {
		if c, ok := in.(*ssa.Call); ok && refOf(c.Common()).is("io", "", "Copy") {
			r.Check(onlyVia(up, b, pass), "D4-image", fu.key+":read-after-size-test", p.Pos(c.Pos()), "content is read only for entries within the limit", "unpack reads an entry's content without having checked its size against the limit")
		}
	})
}
