package main

import (
	"fmt"
	"go/constant"
	"go/token"
	"go/types"
	"sort"
	"strings"

	"golang.org/x/tools/go/ssa"
)

func init() {
	register(&PropDef{
		ID:       "C09",
		Patterns: []string{"./extractor/filesystem", "./extractor/filesystem/internal", ".", "./plugin", "./extractor/standalone"},
		Explain: "Decided: D1 in the walk callback and the explicit-path driver every non-nil error return whose value derives from a file-system error (the fserr parameter, results of gitignore parsing, the lazy size stat) is control-dependent on errorOnFSErrors==true, " +
			"and from fserr!=nil ∧ errorOnFSErrors every path returns a non-nil error wrapping fserr; non-fatal paths never return an error and (for the size check and gitignore) continue or skip only that file; " +
			"D2 second-call protocol: a failed open/listing of a directory and a failed root stat are reported to the callback with that error, the walker then returns what the callback decided and never originates SkipDir; the callback touches the DirEntry only when fserr==nil; " +
			"D3 a failed Open/Stat/Extract of a required file is recorded under the running extractor's name on every path, statuses are built for every configured extractor from foundInv/errors keyed by its name, StatusFromErr selects failed vs partially-succeeded by its 'partial' argument; the lazy stat cache never keeps a stale error; " +
			"D4 Scan turns the error of filesystem.Run, standalone.Run and detector.Run into a failed overall status on every path; D5 the gitignore stack pop is guarded against an empty stack. " +
			"Added in round 2: D1 additionally: once fserr != nil a return that does not carry it is reachable only through the errorOnFSErrors == false edge. Added in round 3: the decisions and early exits of the callback's loop over the extractors are the audited ones (an Open failure for one extractor does not keep the file from the others). Added in round 7: D8 a deferred function literal assigns to an error result only when the result is nil, with a non-nil value, or with a value built from the old one. Added in round 8: D5 the gitignore push/pop balance (shared with C01/C08) — a non-fatal .gitignore fault leaves the stack in step. NOT decided: which files get extracted under a given fault sequence (needs executions).",
		Run: runC09,
		Controls: []Mutant{
			{Name: "size-stat-fatal", File: "extractor/filesystem/filesystem.go", Old: "				if err != nil {\n					if wc.errorOnFSErrors {\n						return fmt.Errorf(\"failed to get file size for %q: %w\", path, err)\n					}", New: "				if err != nil {\n					if true {\n						return fmt.Errorf(\"failed to get file size for %q: %w\", path, err)\n					}", Rule: "D1-fatal-only-on-request", Site: "handleFile"},
			{Name: "fserr-not-fatal-on-request", File: "extractor/filesystem/filesystem.go", Old: "			return fmt.Errorf(\"handleFile(%q) fserr: %w\", path, fserr)", New: "			log.Errorf(\"handleFile(%q) fserr: %v\", path, fserr)", Rule: "D1-fatal-on-request", Site: "handleFile"},
			{Name: "open-error-dropped", File: "extractor/filesystem/filesystem.go", Old: "		addErrToMap(wc.errors, ex.Name(), fmt.Errorf(\"Open(%s): %w\", path, err))\n", New: "", Rule: "D3-surfaced", Site: "Open"},
			{Name: "status-partial-swapped", File: "plugin/plugin.go", Old: "		if partial {\n			status.Status = ScanStatusPartiallySucceeded\n		} else {\n			status.Status = ScanStatusFailed\n		}", New: "		if partial {\n			status.Status = ScanStatusFailed\n		} else {\n			status.Status = ScanStatusPartiallySucceeded\n		}", Rule: "D3-status", Site: "StatusFromErr"},
			{Name: "overall-status-inverted", File: "scalibr.go", Old: "	if o.Err != nil {\n		status.Status = plugin.ScanStatusFailed", New: "	if o.Err == nil {\n		status.Status = plugin.ScanStatusFailed", Rule: "D4-overall", Site: "newScanResult"},
			{Name: "overall-status-overwritten", File: "scalibr.go", Old: "	} else {\n		status.Status = plugin.ScanStatusSucceeded\n	}\n	r := &ScanResult{", New: "	}\n	status.Status = plugin.ScanStatusSucceeded\n	r := &ScanResult{", Rule: "D4-overall", Site: "newScanResult"},
			{Name: "overall-status-failed-not-set", File: "scalibr.go", Old: "		status.Status = plugin.ScanStatusFailed\n		status.FailureReason = o.Err.Error()\n	} else {", New: "		status.FailureReason = o.Err.Error()\n		if len(o.ExtractorStatus) == 0 {\n			status.Status = plugin.ScanStatusFailed\n		}\n	} else {", Rule: "D4-overall", Site: "newScanResult"},
			{Name: "pop-unguarded", File: "extractor/filesystem/filesystem.go", Old: "if wc.useGitignore && d.Type().IsDir() && len(wc.gitignores) > 0 {", New: "if wc.useGitignore && d.Type().IsDir() {", Rule: "D5-pop", Site: "postHandleFile"},
			{Name: "readdir-error-not-reported", File: "extractor/filesystem/internal/walkdir_iterate.go", Old: "	dirs, err := readDir(fsys, name)\n	if err != nil {\n		// Second call, to report ReadDir error.\n		// Same error handling as in fs.WalkDir: If an error occurred, the walkDirFn is called again,\n		// which can decide to continue (nil), SkipDir or skip all by other errors (e.g. SkipAll).\n		err = walkDirFn(name, d, err)", New: "	dirs, err := readDir(fsys, name)\n	if err != nil {\n		err = walkDirFn(name, d, nil)", Rule: "D2-second-call", Site: "readDir"},
			{Name: "scan-drops-run-error", File: "scalibr.go", Old: "	inv, extractorStatus, err := filesystem.Run(ctx, extractorConfig)\n	if err != nil {\n		sro.Err = err", New: "	inv, extractorStatus, err := filesystem.Run(ctx, extractorConfig)\n	if err != nil {\n		log.Errorf(\"%v\", err)", Rule: "D4-overall", Site: "filesystem.Run"},
			{Name: "stale-stat-error", File: "extractor/filesystem/filesystem.go", Old: "		api.currentFileInfo, api.currentStatErr = fs.Stat(api.fs, api.currentPath)\n", New: "		info, err := fs.Stat(api.fs, api.currentPath)\n		if err != nil {\n			api.currentStatErr = err\n			return nil, err\n		}\n		api.currentFileInfo = info\n", Rule: "D3-lazystat", Site: "currentStatErr"},
			{Name: "walker-skipdir", File: "extractor/filesystem/internal/walkdir_iterate.go", Old: "			// End iteration after an error\n			return nil\n		}\n		name1", New: "			// End iteration after an error\n			return fs.SkipDir\n		}\n		name1", Rule: "D2-walker-returns", Site: "walkDirUnsorted"},
		},
		Neutral: handleFileNeutral,
	})
}

func runC09(p *Prog, r *Report) {
	defer func() {
		mapOnlySetTrue(p, r, "D3-surfaced", "walkContext", "foundInv", "extractor/filesystem", "the 'extractor found inventory' flag is overwritten per file instead of being sticky: an extractor that failed on its last file is reported failed although it produced results from others (partially succeeded)")
		c09IteratorForwardsError(p, r, "D2-second-call")
	}()
	r.Rule("D1-fatal-only-on-request", "file-system errors abort the walk only under errorOnFSErrors")
	r.Rule("D1-fatal-on-request", "with errorOnFSErrors a traversal failure returns a non-nil error wrapping it")
	r.Rule("D2-second-call", "listing/stat failures are reported to the callback with the error")
	r.Rule("D2-walker-returns", "the walker returns only nil or what callback/recursion returned")
	r.Rule("D2-entry-nil", "callback touches the DirEntry only when fserr == nil")
	r.Rule("D3-surfaced", "failed Open/Stat/Extract recorded under the extractor's name")
	r.Rule("D3-status", "status per configured extractor; failed vs partial from 'partial'")
	r.Rule("D3-lazystat", "lazy stat cache overwritten completely on each fresh stat")
	r.Rule("D4-overall", "Run errors make the overall scan status failed")
	r.Rule("D5-pop", "gitignore pop guarded against empty stack")
	e := resolveEngine(p, r, "D1-fatal-only-on-request")
	if !e.ok() {
		return
	}
	extractorLoopRule(p, r, e, "D3-surfaced")
	c09Fatal(p, r, e)
	loopLeftOnlyWithError(p, r, "D1-fatal-only-on-request", e.walkIndividual, "walkContext", "pathsToExtract", "walkIndividualPaths can return from inside its loop over the requested paths with a value that may be nil (the callback's verdict on a failed stat, say): when it is nil, every requested path after this one is silently never walked and the scan still reports success")
	c09SecondCall(p, r, e)
	r.Rule("D7-walk", "walker: callback first, recurse into every entry, exits only EOF/error/SkipDir, a failed read ends the listing (shared with C01)")
	c01Walker(p, r, e)
	c09Surfaced(p, r, e)
	r.Rule("D11-input-info", "the Info handed to an extractor is the result of Stat on the file that was opened, on every path")
	inputInfoIsOpenedFilesStat(p, r, "D11-input-info", e)
	c09Overall(p, r)
	c09Pop(p, r, e)
	r.Rule("D5-balanced", "a non-fatal .gitignore fault leaves the pattern stack in step with the directory nesting (shared with C01/C08)")
	c08Balanced(p, r, e, "D5-balanced")
	r.Rule("D8-deferred-keeps-error", "a deferred assignment to an error result never replaces a reported failure by nil")
	deferredStoreKeepsError(p, r, "D8-deferred-keeps-error", p.FuncsIn("extractor/filesystem", "extractor/filesystem/internal", ".", "extractor/standalone", "plugin"), "a deferred function literal assigns to the function's error result unconditionally (`defer func() { err = f.Close() }()`): whenever the deferred call succeeds, a failure the body had reported — a read error while a required file is copied to a real path — is replaced by nil, the caller goes on with a truncated file and the extractor's status says SUCCEEDED")
}

// errLeaves collects the error-typed leaves a returned value derives from: parameters and call
// results reached through phi, fmt.Errorf/errors.Join arguments and interface conversions.
func errLeaves(v ssa.Value) []ssa.Value {
	var out []ssa.Value
	seen := map[ssa.Value]bool{}
	var rec func(v ssa.Value)
	rec = func(v ssa.Value) {
		if v == nil || seen[v] {
			return
		}
		seen[v] = true
		switch x := v.(type) {
		case *ssa.Phi:
			for _, e := range x.Edges {
				rec(e)
			}
		case *ssa.ChangeInterface:
			rec(x.X)
		case *ssa.MakeInterface:
			rec(x.X)
		case *ssa.Parameter:
			out = append(out, x)
		case *ssa.Extract:
			out = append(out, x)
		case *ssa.Call:
			rf := refOf(x.Common())
			if (rf.Pkg == "fmt" && rf.Name == "Errorf") || (rf.Pkg == "errors" && rf.Name == "Join") {
				found := false
				for _, a := range x.Call.Args {
					if sl, ok := a.(*ssa.Slice); ok {
						if al, ok := sl.X.(*ssa.Alloc); ok {
							for _, ref := range *al.Referrers() {
								if ia, ok := ref.(*ssa.IndexAddr); ok {
									for _, r2 := range *ia.Referrers() {
										if st, ok := r2.(*ssa.Store); ok {
											inner := stripIface(st.Val)
											if isErrorType(inner) {
												found = true
												rec(inner)
											}
										}
									}
								}
							}
						}
					}
				}
				if !found {
					out = append(out, x) // a fresh error with no cause
				}
				return
			}
			out = append(out, x)
		case *ssa.UnOp:
			if _, ok := x.X.(*ssa.Global); ok {
				out = append(out, x)
				return
			}
			if al, ok := x.X.(*ssa.Alloc); ok {
				for _, s := range storesTo(al) {
					rec(s)
				}
				return
			}
			out = append(out, x)
		case *ssa.Const:
		default:
			out = append(out, v)
		}
	}
	rec(v)
	return out
}

func isErrorType(v ssa.Value) bool {
	return v.Type().String() == "error"
}

// c09FsDerived: which of the leaves of a returned error is a file-system error (""= none).
func c09FsDerived(e *engine, leaves []ssa.Value) string {
	fsDerived := ""
	for _, l := range leaves {
		switch x := l.(type) {
		case *ssa.Parameter:
			fsDerived = "parameter " + x.Name()
		case *ssa.Extract:
			if c, ok := x.Tuple.(*ssa.Call); ok {
				rf := refOf(c.Common())
				if c.Call.StaticCallee() == e.handleFile || rf.is(fp(fsInt), "", "WalkDirUnsorted") {
					continue
				}
				fsDerived = "result of " + rf.String()
			}
		case *ssa.Call:
			rf := refOf(x.Common())
			if x.Call.StaticCallee() == e.handleFile || rf.is(fp(fsInt), "", "WalkDirUnsorted") {
				continue
			}
			if x.Call.IsInvoke() && x.Call.Method.Name() == "Err" {
				continue
			}
			if rf.Pkg == "fmt" && rf.Name == "Errorf" {
				continue
			}
			fsDerived = "result of " + rf.String()
		}
	}
	return fsDerived
}

func c09Fatal(p *Prog, r *Report, e *engine) {
	for _, fn := range []*ssa.Function{e.handleFile, e.walkIndividual} {
		a := newFA(p, r, fn)
		n := 0
		for i, ret := range returnsOf(fn) {
			if len(ret.Results) != 1 || isNilConst(retVal(ret, 0)) {
				continue
			}
			// (a variable assigned in several branches and returned after they join is judged per
			// branch: the guard must hold where that branch's value is committed)
			perBranch := phiLeaves(retVal(ret, 0), ret.Block())
			if len(perBranch) > 1 {
				for k, pl := range perBranch {
					fsd := c09FsDerived(e, errLeaves(pl.val))
					if fsd == "" {
						continue
					}
					n++
					var target ssa.Instruction = ret
					if pl.edge != nil && len(pl.edge.From.Instrs) > 0 {
						target = pl.edge.From.Instrs[len(pl.edge.From.Instrs)-1]
					}
					a.requireGuard("D1-fatal-only-on-request", fmt.Sprintf("error-return#%d.%d(%s)", i, k, short(fsd, 60)), target, true, "errorOnFSErrors", condFieldBool("walkContext", "errorOnFSErrors"))
				}
				continue
			}
			leaves := errLeaves(retVal(ret, 0))
			fsDerived := ""
			for _, l := range leaves {
				switch x := l.(type) {
				case *ssa.Parameter:
					fsDerived = "parameter " + x.Name()
				case *ssa.Extract:
					if c, ok := x.Tuple.(*ssa.Call); ok {
						rf := refOf(c.Common())
						// forwarded decisions of the callback / nested walk are not file-system errors themselves
						if c.Call.StaticCallee() == e.handleFile || rf.is(fp(fsInt), "", "WalkDirUnsorted") {
							continue
						}
						fsDerived = "result of " + rf.String()
					}
				case *ssa.Call:
					rf := refOf(x.Common())
					if x.Call.StaticCallee() == e.handleFile || rf.is(fp(fsInt), "", "WalkDirUnsorted") {
						continue
					}
					if x.Call.IsInvoke() && x.Call.Method.Name() == "Err" { // ctx.Err()
						continue
					}
					if rf.Pkg == "fmt" && rf.Name == "Errorf" { // fresh error without a cause: limit exceeded
						continue
					}
					fsDerived = "result of " + rf.String()
				case *ssa.UnOp:
					// fs.SkipDir etc.
				}
			}
			if fsDerived == "" {
				continue
			}
			n++
			a.requireGuard("D1-fatal-only-on-request", fmt.Sprintf("error-return#%d(%s)", i, short(fsDerived, 60)), ret, true, "errorOnFSErrors", condFieldBool("walkContext", "errorOnFSErrors"))
		}
		r.Count("fs-derived error returns", n)
	}
	r.Instances("D1-fatal-only-on-request", "fs-derived error returns", r.counts["fs-derived error returns"], 4)
	// fatal on request: fserr != nil ∧ errorOnFSErrors ⇒ non-nil return derived from fserr
	hf := newFA(p, r, e.handleFile)
	fserr := hf.fn.Params[3]
	// fserr is a parameter (one SSA value): along a path that took a fserr != nil edge every later
	// fserr == nil edge is infeasible, so those edges are cut in the searches below.
	fsHolds, fsFails := guardEdges(hf.fn, condNonNil(func(v ssa.Value) bool { return v == fserr }))
	if len(fsHolds) == 0 {
		r.Fail("D1-fatal-on-request", hf.key+":fserr-test", p.Pos(hf.fn.Pos()), "the callback does not test its error parameter")
		return
	}
	eoHolds, _ := guardEdges(hf.fn, condFieldBool("walkContext", "errorOnFSErrors"))
	n := 0
	for _, ed := range eoHolds {
		// only the test that is inside the fserr != nil region
		if !onlyVia(hf.fn, ed.From, fsHolds) {
			continue
		}
		n++
		hf.noPath("D1-fatal-on-request", "fserr-fatal", edgeStart(ed), func(in ssa.Instruction) bool {
			ret, ok := in.(*ssa.Return)
			if !ok {
				return false
			}
			if isNilConst(retVal(ret, 0)) {
				return true
			}
			for _, l := range errLeaves(retVal(ret, 0)) {
				if l == ssa.Value(fserr) {
					return false
				}
			}
			return true
		}, nil, edgesOf(fsFails), "with errorOnFSErrors a traversal error is returned wrapped", "with errorOnFSErrors set a traversal failure does not abort the walk (a nil or unrelated error is returned)")
	}
	r.Check(n > 0, "D1-fatal-on-request", hf.key+":errorOnFSErrors-under-fserr", p.Pos(hf.fn.Pos()), "errorOnFSErrors consulted when fserr != nil", "errorOnFSErrors is not consulted on the fserr != nil path")
	// and no way around it: once fserr != nil, a return that does not carry fserr is reachable only
	// through the errorOnFSErrors == false edge (a "some errors are expected" early return placed
	// before the test would swallow the failure even when errors are fatal on request)
	_, eoFails := guardEdges(hf.fn, condFieldBool("walkContext", "errorOnFSErrors"))
	cut := edgesOf(fsFails)
	for _, e2 := range eoFails {
		cut[e2] = true
	}
	{
		// search from the entry over (block, "a fserr != nil edge was taken") states, never taking a
		// fserr == nil edge after that, never taking the errorOnFSErrors == false edge
		holdSet := edgesOf(fsHolds)
		failSet := edgesOf(fsFails)
		swallow := func(in ssa.Instruction) bool {
			ret, ok := in.(*ssa.Return)
			if !ok {
				return false
			}
			if isNilConst(retVal(ret, 0)) {
				return true
			}
			for _, l := range errLeaves(retVal(ret, 0)) {
				if l == ssa.Value(fserr) {
					return false
				}
			}
			return true
		}
		type st struct {
			b    *ssa.BasicBlock
			held int // 0: fserr not tested yet, 1: known non-nil, 2: known nil
		}
		seen := map[st]bool{}
		work := []st{{hf.fn.Blocks[0], 0}}
		var witness *ssa.BasicBlock
		for len(work) > 0 && witness == nil {
			x := work[len(work)-1]
			work = work[:len(work)-1]
			if seen[x] {
				continue
			}
			seen[x] = true
			if x.held == 1 && len(x.b.Instrs) > 0 && swallow(x.b.Instrs[len(x.b.Instrs)-1]) {
				witness = x.b
				break
			}
			for i, sc := range x.b.Succs {
				e2 := Edge{x.b, i}
				if cut[e2] && !failSet[e2] { // errorOnFSErrors == false edge
					continue
				}
				h := x.held
				switch {
				case failSet[e2] && h == 1, holdSet[e2] && h == 2:
					continue // contradicts what the path already knows about fserr
				case failSet[e2]:
					h = 2
				case holdSet[e2]:
					h = 1
				}
				work = append(work, st{sc, h})
			}
		}
		site := hf.key + ":fserr-swallowed-only-when-not-fatal"
		if witness == nil {
			r.OK("D1-fatal-on-request", site, p.Pos(hf.fn.Pos()), "a traversal failure is dropped only on the errorOnFSErrors == false edge")
		} else {
			r.Fail("D1-fatal-on-request", site, p.Pos(witness.Instrs[len(witness.Instrs)-1].Pos()), "a traversal failure can be dropped (nil or unrelated error returned) on a path that never consulted errorOnFSErrors: with errors fatal on request the walk continues")
		}
	}
	// non-fatal fserr path returns nil without touching d and without dispatch
	for _, ed := range fsHolds {
		hf.noPath("D1-fatal-only-on-request", "fserr-path-ends", edgeStart(ed), func(in ssa.Instruction) bool {
			return in == ssa.Instruction(e.dispatchCall)
		}, nil, edgesOf(fsFails), "the error path never dispatches", "after a traversal error the callback continues into extraction")
	}
	// RunFS / Run / runOnScanRoot forward the walk's error
	for _, fn := range []*ssa.Function{e.RunFS, e.runOnScanRoot, e.Run} {
		if fn == nil {
			continue // runOnScanRoot written out in Run: Run forwards RunFS's error itself
		}
		fa := newFA(p, r, fn)
		var src *ssa.Call
		forEachInstr(fn, func(_ *ssa.BasicBlock, _ int, in ssa.Instruction) {
			c, ok := in.(*ssa.Call)
			if !ok {
				return
			}
			rf := refOf(c.Common())
			switch fn {
			case e.RunFS:
				if rf.is(fp(fsInt), "", "WalkDirUnsorted") || c.Call.StaticCallee() == e.walkIndividual {
					src = c
				}
			case e.runOnScanRoot:
				if c.Call.StaticCallee() == e.RunFS {
					src = c
				}
			case e.Run:
				if e.isPerRootCall(c.Common()) {
					src = c
				}
			}
		})
		if src == nil {
			r.Undecided("D1-fatal-on-request", fa.key+":forward", p.Pos(fn.Pos()), "cannot find the call whose error should be forwarded")
			continue
		}
		forwards := false
		for _, ret := range returnsOf(fn) {
			last := retVal(ret, len(ret.Results)-1)
			if derivesFrom(last, func(v ssa.Value) bool {
				c, _ := callValue(v)
				if c == nil {
					return false
				}
				if fn == e.RunFS {
					rf := refOf(c.Common())
					return rf.is(fp(fsInt), "", "WalkDirUnsorted") || c.Call.StaticCallee() == e.walkIndividual
				}
				return c == src
			}, deriveOpts{followStores: true}) {
				forwards = true
			}
		}
		r.Check(forwards, "D1-fatal-on-request", fa.key+":forward", p.Pos(src.Pos()), "the walk's error is returned", "the error returned by the walk is dropped in "+fa.key)
	}
	// Run: err != nil from runOnScanRoot returns immediately with that err
}

func c09SecondCall(p *Prog, r *Report, e *engine) {
	w := newFA(p, r, e.walkRec)
	fn := w.fn
	if len(fn.Params) != 5 {
		r.Undecided("D2-second-call", w.key+":signature", "-", "unexpected signature")
		return
	}
	isCBwith := func(errv func(ssa.Value) bool) func(ssa.Instruction) bool {
		return func(in ssa.Instruction) bool {
			c, ok := in.(*ssa.Call)
			return ok && c.Call.Value == fn.Params[3] && len(c.Call.Args) == 3 && errv(c.Call.Args[2]) && c.Call.Args[0] == fn.Params[1] && c.Call.Args[1] == fn.Params[2]
		}
	}
	for _, src := range []struct{ name, recv, fn string }{{"readDir", "", "readDir"}, {"next", "dirIterator", "next"}} {
		var call *ssa.Call
		forEachInstr(fn, func(_ *ssa.BasicBlock, _ int, in ssa.Instruction) {
			if c, ok := in.(*ssa.Call); ok && refOf(c.Common()).is(fp(fsInt), src.recv, src.fn) {
				call = c
			}
		})
		if call == nil {
			r.Undecided("D2-second-call", w.key+":"+src.name, "-", "call not found")
			continue
		}
		isErr := func(v ssa.Value) bool {
			ex, ok := v.(*ssa.Extract)
			return ok && ex.Tuple == ssa.Value(call) && ex.Index == 1
		}
		holds, _ := guardEdges(fn, condNonNil(isErr))
		if len(holds) == 0 {
			r.Fail("D2-second-call", w.key+":"+src.name, p.Pos(call.Pos()), "the error of "+src.name+" is not tested")
			continue
		}
		cut := edgeSet{}
		if src.name == "next" {
			// the EOF edge legitimately leaves without reporting
			eof, _ := guardEdges(fn, condCall(func(c *ssa.Call) bool {
				rf := refOf(c.Common())
				return rf.Pkg == "errors" && rf.Name == "Is" && isErr(c.Call.Args[0]) && loadsGlobal(c.Call.Args[1], "io", "EOF")
			}))
			if len(eof) == 0 {
				r.Fail("D2-second-call", w.key+":next-eof", p.Pos(call.Pos()), "end of directory (io.EOF) is not distinguished from a read error")
			}
			cut = edgesOf(eof)
		}
		for _, ed := range holds {
			if cut[ed] {
				continue // the io.EOF edge is itself an "error is not nil" edge
			}
			w.noPath("D2-second-call", src.name+"-error-reported", edgeStart(ed), isReturn, isCBwith(isErr), cut,
				"a failed "+src.name+" is reported to the callback as (name, d, err)", "a failed "+src.name+" can end the directory without the callback being told (the failure is neither surfaced nor fatal)")
		}
	}
	// WalkDirUnsorted: root stat failure -> fn(root, nil, err)
	wd := newFA(p, r, e.WalkDir)
	var st *ssa.Call
	forEachInstr(wd.fn, func(_ *ssa.BasicBlock, _ int, in ssa.Instruction) {
		if c, ok := in.(*ssa.Call); ok && refOf(c.Common()).is("io/fs", "", "Stat") {
			st = c
		}
	})
	if st == nil {
		r.Undecided("D2-second-call", wd.key+":root-stat", "-", "fs.Stat of the root not found")
	} else {
		isErr := func(v ssa.Value) bool {
			ex, ok := v.(*ssa.Extract)
			return ok && ex.Tuple == ssa.Value(st) && ex.Index == 1
		}
		holds, _ := guardEdges(wd.fn, condNonNil(isErr))
		for _, ed := range holds {
			wd.noPath("D2-second-call", "root-stat-error-reported", edgeStart(ed), isReturn, func(in ssa.Instruction) bool {
				c, ok := in.(*ssa.Call)
				return ok && c.Call.Value == wd.fn.Params[2] && len(c.Call.Args) == 3 && isErr(c.Call.Args[2]) && c.Call.Args[0] == wd.fn.Params[1]
			}, nil, "a failed stat of the root is reported to the callback", "a failed stat of the walk root is not reported to the callback")
		}
		if len(holds) == 0 {
			r.Fail("D2-second-call", wd.key+":root-stat", p.Pos(st.Pos()), "the root stat error is not tested")
		}
	}
	// walker returns
	c09WalkerReturns(p, r, e)
	// D2-entry-nil: every use of param d in handleFile is under fserr == nil
	hf := newFA(p, r, e.handleFile)
	d := hf.fn.Params[2]
	fserr := hf.fn.Params[3]
	_, fsNil := guardEdges(hf.fn, condNonNil(func(v ssa.Value) bool { return v == fserr }))
	n := 0
	for _, ref := range *d.Referrers() {
		in, ok := ref.(ssa.Instruction)
		if !ok {
			continue
		}
		if _, dbg := in.(*ssa.DebugRef); dbg {
			continue
		}
		n++
		okk := onlyVia(hf.fn, in.Block(), fsNil)
		r.Check(okk, "D2-entry-nil", fmt.Sprintf("%s:use#%d", hf.key, n), p.Pos(in.Pos()), "DirEntry used only when fserr == nil", "the callback dereferences its DirEntry on a path where fserr may be non-nil (the entry is nil when the root stat failed): panic")
	}
	r.Instances("D2-entry-nil", "uses of the DirEntry parameter", n, 1)
}

func c09WalkerReturns(p *Prog, r *Report, e *engine) {
	w := newFA(p, r, e.walkRec)
	fn := w.fn
	isCB := func(x *ssa.Call) bool { return x.Call.Value == fn.Params[3] }
	for i, ret := range returnsOf(fn) {
		bad := ""
		for _, l := range errLeaves(retVal(ret, 0)) {
			switch x := l.(type) {
			case *ssa.Call:
				if !isCB(x) && x.Call.StaticCallee() != fn {
					bad = "result of " + refOf(x.Common()).String()
				}
			case *ssa.UnOp:
				bad = "load of " + x.X.String()
			default:
				bad = fmt.Sprintf("%T", l)
			}
		}
		r.Check(bad == "", "D2-walker-returns", fmt.Sprintf("%s:return#%d", w.key, i), p.Pos(ret.Pos()), "nil / callback result / recursion result", "the walker originates an error value itself ("+bad+"); fs.SkipDir from here silently ends the listing of the parent directory")
	}
}

func c09Surfaced(p *Prog, r *Report, e *engine) {
	re := newFA(p, r, e.runExtractor)
	fn := re.fn
	addErr := func(errv func(ssa.Value) bool) func(ssa.Instruction) bool {
		return func(in ssa.Instruction) bool {
			c, ok := in.(*ssa.Call)
			if !ok || !refOf(c.Common()).is(fp(fsPkg), "", "addErrToMap") || len(c.Call.Args) != 3 {
				return false
			}
			if !loadsField(c.Call.Args[0], "walkContext", "errors") {
				return false
			}
			kc, _ := callValue(c.Call.Args[1])
			if kc == nil || !kc.Call.IsInvoke() || kc.Call.Method.Name() != "Name" || kc.Call.Value != fn.Params[1] {
				return false
			}
			for _, l := range errLeaves(c.Call.Args[2]) {
				if errv(l) {
					return true
				}
			}
			return false
		}
	}
	n := 0
	forEachInstr(fn, func(_ *ssa.BasicBlock, _ int, in ssa.Instruction) {
		c, ok := in.(*ssa.Call)
		if !ok || !c.Call.IsInvoke() {
			return
		}
		m := c.Call.Method.Name()
		if m != "Open" && m != "Stat" && m != "Extract" {
			return
		}
		n++
		isErr := func(v ssa.Value) bool {
			ex, ok := v.(*ssa.Extract)
			return ok && ex.Tuple == ssa.Value(c) && ex.Index == 1
		}
		holds, _ := guardEdges(fn, condNonNil(isErr))
		if len(holds) == 0 {
			r.Fail("D3-surfaced", re.key+":"+m, p.Pos(c.Pos()), "the error of "+m+" is not tested")
			return
		}
		for _, ed := range holds {
			re.noPath("D3-surfaced", m+"-error-recorded", edgeStart(ed), isReturn, addErr(isErr), nil,
				"recorded with addErrToMap(wc.errors, ex.Name(), …err…)", "a failed "+m+" of a required file can go unrecorded: the extractor's status stays 'succeeded'")
		}
	})
	r.Instances("D3-surfaced", "fallible steps in the dispatch function", n, 3)
	// addErrToMap keeps previous errors (joins) and stores under key
	am := p.Func(fsPkg, "addErrToMap")
	if am == nil {
		r.Undecided("D3-surfaced", "anchor:addErrToMap", "-", "not found")
	} else {
		upd := 0
		okKey := true
		forEachInstr(am, func(_ *ssa.BasicBlock, _ int, in ssa.Instruction) {
			if mu, ok := in.(*ssa.MapUpdate); ok {
				upd++
				if mu.Map != am.Params[0] || mu.Key != am.Params[1] {
					okKey = false
				}
			}
		})
		fa := newFA(p, r, am)
		fa.noPath("D3-surfaced", "always-stores", entryPoint(am), isReturn, func(in ssa.Instruction) bool { _, ok := in.(*ssa.MapUpdate); return ok }, nil, "every call stores an error under the key", "addErrToMap can return without storing the error")
		r.Check(upd > 0 && okKey, "D3-surfaced", fa.key+":key", p.Pos(am.Pos()), "errors[key] = …", "addErrToMap stores under a different map or key")
	}
	// errToExtractorStatus
	es := p.Func(fsPkg, "errToExtractorStatus")
	if es == nil {
		r.Undecided("D3-status", "anchor:errToExtractorStatus", "-", "not found")
	} else {
		var sc *ssa.Call
		forEachInstr(es, func(_ *ssa.BasicBlock, _ int, in ssa.Instruction) {
			if c, ok := in.(*ssa.Call); ok && refOf(c.Common()).is(fp("plugin"), "", "StatusFromErr") {
				sc = c
			}
		})
		site := fnKey(es)
		if sc == nil {
			r.Fail("D3-status", site, p.Pos(es.Pos()), "statuses are not built with plugin.StatusFromErr")
		} else {
			ex := stripIface(sc.Call.Args[0])
			nameOf := func(v ssa.Value) bool {
				c, _ := callValue(v)
				return c != nil && c.Call.IsInvoke() && c.Call.Method.Name() == "Name" && c.Call.Value == ex
			}
			lookup := func(v ssa.Value, m ssa.Value) bool {
				lk, ok := v.(*ssa.Lookup)
				return ok && lk.X == m && nameOf(lk.Index)
			}
			r.Check(lookup(sc.Call.Args[1], es.Params[1]) && lookup(sc.Call.Args[2], es.Params[2]), "D3-status", site+":keys", p.Pos(sc.Pos()),
				"StatusFromErr(ex, foundInv[ex.Name()], errors[ex.Name()])", "the status of an extractor is not built from foundInv/errors looked up under that extractor's own name")
			r.Check(inLoop(sc.Block()) && derivesFrom(ex, func(v ssa.Value) bool { return v == es.Params[0] }, deriveOpts{}), "D3-status", site+":all-extractors", p.Pos(sc.Pos()), "one status per configured extractor", "statuses are not produced for every configured extractor")
		}
		// RunFS passes config.Extractors, wc.foundInv, wc.errors
		var call *ssa.Call
		forEachInstr(e.RunFS, func(_ *ssa.BasicBlock, _ int, in ssa.Instruction) {
			if c, ok := in.(*ssa.Call); ok && c.Call.StaticCallee() == es {
				call = c
			}
		})
		if call == nil {
			r.Fail("D3-status", fnKey(e.RunFS)+":status", p.Pos(e.RunFS.Pos()), "RunFS does not build extractor statuses")
		} else {
			r.Check(loadsField(call.Call.Args[0], "Config", "Extractors") && loadsField(call.Call.Args[1], "walkContext", "foundInv") && loadsField(call.Call.Args[2], "walkContext", "errors"),
				"D3-status", fnKey(e.RunFS)+":status-args", p.Pos(call.Pos()), "errToExtractorStatus(config.Extractors, wc.foundInv, wc.errors)", "statuses are built from something other than the walk's own foundInv/errors maps")
		}
	}
	// StatusFromErr: Failed vs PartiallySucceeded by partial
	sf := p.Func("plugin", "StatusFromErr")
	if sf == nil {
		r.Undecided("D3-status", "anchor:plugin.StatusFromErr", "-", "not found")
	} else {
		fa := newFA(p, r, sf)
		consts := pluginStatusConsts(p)
		storeOf := func(val int64) func(ssa.Instruction) bool {
			return func(in ssa.Instruction) bool {
				st, ok := in.(*ssa.Store)
				if !ok || !storesField("ScanStatus", "Status")(in) {
					return false
				}
				k, ok := constInt(st.Val)
				return ok && k == val
			}
		}
		errNil := condNonNil(func(v ssa.Value) bool { return v == sf.Params[2] })
		partial := func(c ssa.Value) (bool, bool) { return c == ssa.Value(sf.Params[1]), true }
		_ = storeOf
		// the status the function leaves behind, path by path: the last constant written to
		// ScanStatus.Status decides (an initial value overwritten later does not count), and it must
		// be the one the error and the partial flag on that path call for
		outs, okEnum := enumOutcomes(sf, func(in ssa.Instruction) (ssa.Value, bool) {
			if st, ok := in.(*ssa.Store); ok && storesField("ScanStatus", "Status")(in) {
				return st.Val, true
			}
			return nil, false
		}, []CondPred{errNil, partial}, 256)
		name := map[int64]string{}
		for n, k := range consts {
			name[k] = n
		}
		var wrong []string
		for _, o := range outs {
			hasErr, errKnown := o.facts[0]
			isPartial, partKnown := o.facts[1]
			got := "nothing"
			if o.opaque {
				got = "a computed value"
			} else if o.set {
				got = name[o.last]
			}
			want := ""
			switch {
			case !errKnown:
				want = "a status chosen after testing the error"
			case !hasErr:
				want = "ScanStatusSucceeded"
			case !partKnown:
				want = "a status chosen after testing the partial flag"
			case isPartial:
				want = "ScanStatusPartiallySucceeded"
			default:
				want = "ScanStatusFailed"
			}
			if got != want {
				cond := "err untested"
				if errKnown {
					cond = map[bool]string{true: "err != nil", false: "err == nil"}[hasErr]
					if hasErr && partKnown {
						cond += map[bool]string{true: " && partial", false: " && !partial"}[isPartial]
					}
				}
				wrong = append(wrong, fmt.Sprintf("%s leaves %s, want %s (blocks %v)", cond, got, want, o.blocks))
			}
		}
		sort.Strings(wrong)
		if !okEnum || len(outs) == 0 {
			r.Undecided("D3-status", fa.key+":selection", p.Pos(sf.Pos()), "too many paths through StatusFromErr to enumerate")
		} else {
			r.Check(len(wrong) == 0, "D3-status", fa.key+":selection", p.Pos(sf.Pos()), fmt.Sprintf("err==nil→Succeeded; err!=nil∧partial→PartiallySucceeded; err!=nil∧!partial→Failed on all %d paths", len(outs)),
				"status selection is wrong: "+strings.Join(wrong, "; "))
		}
	}
	// lazy stat cache
	ls := newFA(p, r, e.lazyStat)
	var statCall *ssa.Call
	forEachInstr(ls.fn, func(_ *ssa.BasicBlock, _ int, in ssa.Instruction) {
		if c, ok := in.(*ssa.Call); ok && refOf(c.Common()).is("io/fs", "", "Stat") {
			statCall = c
		}
	})
	if statCall == nil {
		r.Undecided("D3-lazystat", ls.key+":stat", "-", "no fs.Stat call")
	} else {
		for _, f := range []string{"currentFileInfo", "currentStatErr"} {
			ls.noPath("D3-lazystat", f, pointOf(statCall), isReturn, storesField("lazyFileAPI", f), nil, "overwritten after every fresh stat", "after a fresh stat the cached "+f+" can keep the value from an earlier file: one failed stat poisons every later file")
		}
	}
}

func pluginStatusConsts(p *Prog) map[string]int64 {
	out := map[string]int64{}
	pk := p.TPkg("plugin")
	if pk == nil {
		return out
	}
	for _, n := range []string{"ScanStatusSucceeded", "ScanStatusPartiallySucceeded", "ScanStatusFailed", "ScanStatusUnspecified"} {
		if c, ok := pk.Types.Scope().Lookup(n).(*types.Const); ok {
			k, _ := constant.Int64Val(c.Val())
			out[n] = k
		}
	}
	return out
}

func c09Overall(p *Prog, r *Report) {
	scan := p.Func(".", "Scanner.Scan")
	if scan == nil {
		r.Undecided("D4-overall", "anchor:Scanner.Scan", "-", "not found")
		return
	}
	fa := newFA(p, r, scan)
	for _, tgt := range []struct{ pkg, name string }{{fsPkg, "filesystem.Run"}, {"extractor/standalone", "standalone.Run"}, {"detector", "detector.Run"}} {
		var call *ssa.Call
		forEachInstr(scan, func(_ *ssa.BasicBlock, _ int, in ssa.Instruction) {
			if c, ok := in.(*ssa.Call); ok && refOf(c.Common()).is(fp(tgt.pkg), "", "Run") {
				call = c
			}
		})
		if call == nil {
			r.Fail("D4-overall", fa.key+":"+tgt.name, p.Pos(scan.Pos()), "Scan does not call "+tgt.name)
			continue
		}
		isErr := func(v ssa.Value) bool {
			ex, ok := v.(*ssa.Extract)
			return ok && ex.Tuple == ssa.Value(call) && ex.Index == 2
		}
		holds, _ := guardEdges(scan, condNonNil(isErr))
		if len(holds) == 0 {
			// not tested at all: then it must be stored unconditionally (sro.Err = err on every path
			// from the call to a return)
			keep := func(in ssa.Instruction) bool {
				st, ok := in.(*ssa.Store)
				return ok && storesField("newScanResultOptions", "Err")(in) && isErr(st.Val)
			}
			if w := findPath(pointOf(call), isReturn, keep, nil); w == nil {
				r.OK("D4-overall", fa.key+":"+tgt.name+"-error-kept", p.Pos(call.Pos()), "sro.Err = err unconditionally")
				continue
			}
			r.Fail("D4-overall", fa.key+":"+tgt.name, p.Pos(call.Pos()), "the error of "+tgt.name+" is not tested")
			continue
		}
		for _, ed := range holds {
			fa.noPath("D4-overall", tgt.name+"-error-kept", edgeStart(ed), isReturn, func(in ssa.Instruction) bool {
				st, ok := in.(*ssa.Store)
				return ok && storesField("newScanResultOptions", "Err")(in) && isErr(st.Val)
			}, nil, "sro.Err = err on every path", "an error from "+tgt.name+" can be lost: the overall scan status stays 'succeeded'")
		}
	}
	// every return returns newScanResult(sro)
	for i, ret := range returnsOf(scan) {
		c, _ := callValue(retVal(ret, 0))
		okk := c != nil && refOf(c.Common()).is(modPath, "", "newScanResult")
		if !okk {
			// named result: load of alloc storing newScanResult
			okk = derivesFrom(retVal(ret, 0), func(v ssa.Value) bool {
				c, _ := callValue(v)
				return c != nil && refOf(c.Common()).is(modPath, "", "newScanResult")
			}, deriveOpts{followStores: true})
		}
		r.Check(okk, "D4-overall", fmt.Sprintf("%s:return#%d", fa.key, i), p.Pos(ret.Pos()), "returns newScanResult(sro)", "Scan returns a result not built by newScanResult")
	}
	nsr := p.Func(".", "newScanResult")
	if nsr == nil {
		r.Undecided("D4-overall", "anchor:newScanResult", "-", "not found")
		return
	}
	fb := newFA(p, r, nsr)
	consts := pluginStatusConsts(p)
	var sFails, sOKs []ssa.Instruction
	forEachInstr(nsr, func(_ *ssa.BasicBlock, _ int, in ssa.Instruction) {
		st, ok := in.(*ssa.Store)
		if !ok || !storesField("ScanStatus", "Status")(in) {
			return
		}
		if k, ok := constInt(st.Val); ok {
			if k == consts["ScanStatusFailed"] {
				sFails = append(sFails, in)
			}
			if k == consts["ScanStatusSucceeded"] {
				sOKs = append(sOKs, in)
			}
		}
	})
	errField := condNonNil(isFieldLoad("newScanResultOptions", "Err"))
	if len(sFails) == 0 || len(sOKs) == 0 {
		r.Fail("D4-overall", fb.key+":status", p.Pos(nsr.Pos()), "newScanResult does not set Failed/Succeeded")
		return
	}
	// the status the result carries is the one stored last: Failed is stored only under Err != nil
	// and nothing stores Succeeded after it; every run that never takes an "Err == nil" edge stores
	// Failed, every run that never takes an "Err != nil" edge stores Succeeded (whether Succeeded is
	// written in an else branch or as the initial value that the failure overwrites)
	isIn := func(set []ssa.Instruction) func(ssa.Instruction) bool {
		return func(in ssa.Instruction) bool {
			for _, x := range set {
				if x == in {
					return true
				}
			}
			return false
		}
	}
	okAll := true
	for _, f := range sFails {
		g1, _ := fb.guarded(f, true, errField)
		okAll = okAll && g1
		pt := pointOf(f)
		pt.I++
		if w := findPath(pt, isIn(sOKs), nil, nil); w != nil {
			okAll = false
		}
	}
	errSet, errNil := guardEdges(nsr, errField)
	if w := findPath(entryPoint(nsr), isReturn, isIn(sFails), edgesOf(errNil)); w != nil {
		okAll = false
	}
	if w := findPath(entryPoint(nsr), isReturn, isIn(sOKs), edgesOf(errSet)); w != nil {
		okAll = false
	}
	r.Check(okAll, "D4-overall", fb.key+":status", p.Pos(nsr.Pos()), "Err != nil ⇔ ScanStatusFailed", "the overall status is not Failed exactly when an error was recorded")
}

func c09Pop(p *Prog, r *Report, e *engine) {
	ph := newFA(p, r, e.postHandleFile)
	n := 0
	forEachInstr(ph.fn, func(_ *ssa.BasicBlock, _ int, in ssa.Instruction) {
		sl, ok := in.(*ssa.Slice)
		if !ok || sl.High == nil {
			return
		}
		bo, ok := sl.High.(*ssa.BinOp)
		if !ok || bo.Op != token.SUB {
			return
		}
		n++
		// guard: len(wc.gitignores) > 0
		lenOf := func(v ssa.Value) bool {
			c, ok := v.(*ssa.Call)
			return ok && isCallTo(c, "builtin", "", "len") && loadsField(c.Call.Args[0], "walkContext", "gitignores")
		}
		g1 := condCmp(lenOf, isConstInt(0), token.GTR)
		g2 := condCmp(lenOf, isConstInt(0), token.NEQ)
		g3 := condCmp(lenOf, isConstInt(1), token.GEQ)
		ok1, n1 := ph.guarded(sl, true, g1, g2, g3)
		r.Check(n1 > 0 && ok1, "D5-pop", ph.key+":pop", p.Pos(sl.Pos()), "pop only when the stack is non-empty", "the gitignore stack is popped without a non-empty check: an early return of the callback before the push (cancelled context, inode limit, fatal error) makes the deferred pop panic")
	})
	r.Instances("D5-pop", "stack pops", n, 1)
}

// inputInfoIsOpenedFilesStat (round 9): the ScanInput handed to Extract carries, in Info, the value
// result of a Stat invoked on the file that Open returned — on every path, never a cached or
// earlier value. A cached value is only as good as the error stored beside it (nil Info when the
// lazy stat failed → the extractor dereferences nil and the whole scan dies), and skipping the stat
// of the opened file drops a fault the status must show.
func inputInfoIsOpenedFilesStat(p *Prog, r *Report, rule string, e *engine) {
	fn := e.runExtractor
	n := 0
	for _, f := range withAnon(fn) {
		forEachInstr(f, func(b *ssa.BasicBlock, _ int, in ssa.Instruction) {
			st, ok := in.(*ssa.Store)
			if !ok {
				return
			}
			fa, ok := st.Addr.(*ssa.FieldAddr)
			if !ok {
				return
			}
			sn := namedOf(fa.X.Type().Underlying().(*types.Pointer).Elem())
			if sn == nil || sn.Obj().Name() != "ScanInput" || sn.Obj().Pkg() == nil || sn.Obj().Pkg().Path() != fp(fsPkg) {
				return
			}
			if sn.Underlying().(*types.Struct).Field(fa.Field).Name() != "Info" {
				return
			}
			n++
			site := fnKey(fn) + ":ScanInput.Info"
			for _, l := range phiLeaves(st.Val, b) {
				v := stripChangeType(l.val)
				if mi, ok := v.(*ssa.MakeInterface); ok {
					v = mi.X
				}
				ex, isEx := v.(*ssa.Extract)
				var call *ssa.Call
				if isEx {
					call, _ = ex.Tuple.(*ssa.Call)
				}
				if call == nil || !call.Call.IsInvoke() || call.Call.Method.Name() != "Stat" || ex.Index != 0 {
					r.Fail(rule, site, p.Pos(st.Pos()), "on some path the Info handed to the extractor is not the result of Stat on the opened file ("+short(renderValue(l.val, 0), 80)+"): a remembered value can be nil or stale when the stat that produced it failed, and the fault of the opened file's own stat goes unrecorded")
					return
				}
				// the receiver of Stat is what Open returned
				rcv := call.Call.Value
				okRecv := false
				for _, rl := range phiLeaves(rcv, call.Block()) {
					if rex, ok := stripChangeType(rl.val).(*ssa.Extract); ok {
						if oc, ok := rex.Tuple.(*ssa.Call); ok && oc.Call.IsInvoke() && oc.Call.Method.Name() == "Open" {
							okRecv = true
							continue
						}
					}
					okRecv = false
					break
				}
				if !okRecv {
					r.Fail(rule, site, p.Pos(call.Pos()), "Stat is not invoked on the file that Open returned")
					return
				}
			}
			r.OK(rule, site, p.Pos(st.Pos()), "Info is the value result of Stat on the opened file on every path")
		})
	}
	r.Instances(rule, "ScanInput.Info stores in the dispatch function", n, 1)
}
