package main

// Self-test of the source-level normalisation (inline.go), run by `./run.sh --selftest` and by the
// thorough tier of C01 (the property whose rules depend on it most): the fixture program
// testdata/inlinefix — every function of which counts as new — is rewritten until no call in a
// supported shape is left, must still type-check, must contain at least the expected number of
// inlined sites, and must print exactly what the program prints as written. This tests the checker,
// not /repo.

import (
	"bytes"
	"fmt"
	"os"
	"os/exec"
	"path/filepath"
	"strings"

	"golang.org/x/tools/go/packages"
)

const inlineFixtureSites = 30

func selftestInline() (msg string, ok bool) {
	dir := filepath.Join(verifDir, "checker", "testdata", "inlinefix")
	ov := map[string][]byte{}
	seq, sites := 0, 0
	var log []string
	for round := 0; round < 8; round++ {
		cfg := &packages.Config{Mode: packages.LoadSyntax | packages.NeedModule, Dir: dir, Env: os.Environ(), Overlay: ov}
		pkgs, err := packages.Load(cfg, "./...")
		if err != nil || len(pkgs) == 0 {
			return fmt.Sprintf("fixture does not load: %v", err), false
		}
		for _, p := range pkgs {
			for _, e := range p.Errors {
				return fmt.Sprintf("round %d: rewritten fixture does not type-check: %s", round, e.Error()), false
			}
		}
		edits, l := inlineRound(pkgs, ov, &seq)
		if len(edits) == 0 {
			break
		}
		for k, v := range edits {
			ov[k] = v
		}
		sites += len(l)
		log = append(log, l...)
	}
	if lf := os.Getenv("SCALINT_SELFTEST_LOG"); lf != "" {
		os.WriteFile(lf, []byte(strings.Join(log, "\n")+"\n"), 0o644)
	}
	if sites < inlineFixtureSites {
		return fmt.Sprintf("only %d call sites inlined in the fixture, expected at least %d: %v", sites, inlineFixtureSites, log), false
	}
	for _, l := range log {
		for _, never := range []string{".guarded inlined", ".depth inlined"} {
			if strings.Contains(l, never) {
				return "a helper that must be left alone was inlined: " + l, false
			}
		}
	}
	tmp, err := os.MkdirTemp("", "scalint-selftest-")
	if err != nil {
		return err.Error(), false
	}
	defer os.RemoveAll(tmp)
	ents, _ := os.ReadDir(dir)
	for _, e := range ents {
		src := filepath.Join(dir, e.Name())
		b, err := os.ReadFile(src)
		if err != nil {
			continue
		}
		if nb, ok := ov[src]; ok {
			b = nb
		}
		os.WriteFile(filepath.Join(tmp, e.Name()), b, 0o644)
	}
	if keep := os.Getenv("SCALINT_SELFTEST_KEEP"); keep != "" {
		for k, v := range ov {
			os.WriteFile(filepath.Join(keep, filepath.Base(k)+".rewritten"), v, 0o644)
		}
	}
	run := func(d string) (string, error) {
		cmd := exec.Command("go", "run", ".")
		cmd.Dir = d
		var out bytes.Buffer
		cmd.Stdout = &out
		cmd.Stderr = &out
		err := cmd.Run()
		if ee, isExit := err.(*exec.ExitError); isExit && ee.ExitCode() == 1 && strings.Contains(out.String(), "exit status") {
			err = nil
		}
		return out.String(), err
	}
	want, _ := run(dir)
	got, _ := run(tmp)
	if want == "" || !strings.Contains(want, "final:") {
		return "fixture did not run: " + short(want, 300), false
	}
	if got != want {
		return fmt.Sprintf("the rewritten fixture behaves differently:\n--- as written\n%s\n--- rewritten\n%s", short(want, 1500), short(got, 1500)), false
	}
	return fmt.Sprintf("%d call sites inlined over the fixture; rewritten program type-checks and prints the same %d bytes", sites, len(want)), true
}
