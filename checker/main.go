// scalint: repository-specific static checks for google/osv-scalibr.
package main

import (
	"flag"
	"fmt"
	"os"
	"os/exec"
	"path/filepath"
	"runtime/debug"
	"sort"
	"strings"
	"sync"
)

type PropDef struct {
	ID       string
	Explain  string   // D/N split, goes to evidence.coverage.explanation
	Assume   []string // extra assumptions
	Patterns []string // packages to load (default ./...)
	// GOOS configurations analysed in the thorough tier (quick = linux only).
	ThoroughGOOS []string
	Run          func(p *Prog, r *Report)
	Controls     []Mutant
	// Neutral: behaviour-preserving variants of the real code; the property's rules must stay silent on them
	Neutral []Mutant
}

// Mutant is an overlay control: replace Old by New in File (relative to /repo), the rule must
// then report a violation whose rule == Rule and whose site contains Site.
type Mutant struct {
	Name, File, Old, New, Rule, Site string
	// optional second replacement in the same file (e.g. a statement moved out of a loop)
	Old2, New2 string
	// Patch: instead of a textual replacement, a unified diff (path relative to /verif) applied to a
	// scratch copy of the files it touches; the patched files become the overlay. Used for the stored
	// seeded defects (/verif/seeded) and behaviour-preserving refactorings (/verif/neutral).
	Patch string
	// Documented: a miss of this control is a documented limit (reason), not a regression
	Documented string
}

var props = map[string]*PropDef{}

func register(p *PropDef) { props[p.ID] = p }

func main() {
	prop := flag.String("prop", "", "property id (C01..C20)")
	tier := flag.String("tier", "quick", "quick|thorough")
	mutant := flag.String("mutant", "", "run one overlay control of the property (internal)")
	replay := flag.String("replay", "", "replay file: re-run the rule instance named in it")
	listF := flag.Bool("list", false, "list properties")
	nocontrols := flag.Bool("nocontrols", false, "skip overlay controls in the thorough tier")
	selfF := flag.Bool("selftest", false, "self-test of the normalisation on the fixture program")
	invF := flag.Bool("inventory", false, "print the inventory of first-party functions (linux, windows, darwin)")
	flag.BoolVar(&noInline, "noinline", false, "do not inline calls of helpers that are not in the inventory")
	flag.StringVar(&repoDir, "repo", "/repo", "repository to analyse")
	flag.StringVar(&verifDir, "verif", "/verif", "verification directory")
	flag.Parse()
	if *selfF {
		msg, ok := selftestInline()
		fmt.Println("selftest inline:", msg)
		if !ok {
			os.Exit(1)
		}
		return
	}
	if *invF {
		noInline = true
		all := map[string]bool{}
		for _, g := range []string{"linux", "windows", "darwin"} {
			p, err := Load(g, nil, "./...")
			if err != nil {
				fmt.Fprintln(os.Stderr, err)
				os.Exit(2)
			}
			for _, k := range inventoryOf(p.Pkgs) {
				all[k] = true
			}
		}
		var ks []string
		for k := range all {
			ks = append(ks, k)
		}
		sort.Strings(ks)
		fmt.Println("# first-party functions of the pinned tree (scalint -inventory); see inline.go")
		fmt.Println(strings.Join(ks, "\n"))
		return
	}
	if *listF {
		var ids []string
		for k := range props {
			ids = append(ids, k)
		}
		sort.Strings(ids)
		fmt.Println(strings.Join(ids, " "))
		return
	}
	if *replay != "" {
		os.Exit(doReplay(*replay))
	}
	pd := props[*prop]
	if pd == nil {
		fmt.Printf("unknown property %q\n", *prop)
		os.Exit(2)
	}
	if *mutant != "" {
		os.Exit(runMutant(pd, *mutant))
	}
	r := NewReport(pd.ID, *tier)
	r.Explain = pd.Explain
	r.Assume = pd.Assume
	code := analyse(pd, r, *tier, nil)
	if code != 0 {
		os.Exit(code)
	}
	if *tier == "thorough" && !*nocontrols {
		runControls(pd, r)
	}
	os.Exit(r.Finish())
}

// analyse loads /repo for each configuration and runs the property's rules.
func analyse(pd *PropDef, r *Report, tier string, overlay map[string][]byte) (code int) {
	gooses := []string{"linux"}
	if tier == "thorough" && len(pd.ThoroughGOOS) > 0 {
		gooses = pd.ThoroughGOOS
	}
	pats := pd.Patterns
	if len(pats) == 0 {
		pats = []string{"./..."}
	}
	for _, g := range gooses {
		p, err := Load(g, overlay, pats...)
		if err != nil {
			r.config = g
			r.configs = append(r.configs, g)
			r.Undecided("load", "load:"+g, "-", "cannot analyse /repo: "+err.Error())
			continue
		}
		r.config = g
		r.configs = append(r.configs, g)
		r.Count("packages_loaded["+g+"]", len(p.Pkgs))
		r.Count("functions_analysed["+g+"]", p.nfuncs)
		if len(p.Inlined) > 0 {
			r.Count("new_helper_calls_inlined["+g+"]", len(p.Inlined))
			for _, l := range p.Inlined {
				r.Note("%s", "normalisation: "+l)
			}
		}
		if len(p.Pkgs) == 0 || p.nfuncs == 0 {
			r.Undecided("load", "load:"+g, "-", "no packages / functions loaded")
			continue
		}
		func() {
			defer func() {
				if e := recover(); e != nil {
					r.Undecided("analyser", "panic:"+g, "-", fmt.Sprintf("analyser panic: %v\n%s", e, short(string(debug.Stack()), 1500)))
				}
			}()
			pd.Run(p, r)
		}()
	}
	return 0
}

// ---- overlay controls ----

func mutantOverlay(m Mutant) (map[string][]byte, string) {
	if m.Patch != "" {
		return patchOverlay(filepath.Join(verifDir, m.Patch))
	}
	path := filepath.Join(repoDir, m.File)
	b, err := os.ReadFile(path)
	if err != nil {
		return nil, "skipped: file missing"
	}
	s := string(b)
	if strings.Count(s, m.Old) != 1 {
		return nil, fmt.Sprintf("skipped: anchor text occurs %d times", strings.Count(s, m.Old))
	}
	s = strings.Replace(s, m.Old, m.New, 1)
	if m.Old2 != "" {
		if strings.Count(s, m.Old2) != 1 {
			return nil, fmt.Sprintf("skipped: second anchor text occurs %d times", strings.Count(s, m.Old2))
		}
		s = strings.Replace(s, m.Old2, m.New2, 1)
	}
	return map[string][]byte{path: []byte(s)}, ""
}

// patchOverlay applies a unified diff to scratch copies of the files it names and returns them as an
// overlay of /repo. The scratch directory lives under the system temp directory and is removed.
func patchOverlay(diff string) (map[string][]byte, string) {
	b, err := os.ReadFile(diff)
	if err != nil {
		return nil, "skipped: patch file missing"
	}
	var files []string
	for _, l := range strings.Split(string(b), "\n") {
		if strings.HasPrefix(l, "+++ b/") {
			files = append(files, strings.TrimSpace(strings.TrimPrefix(l, "+++ b/")))
		}
	}
	if len(files) == 0 {
		return nil, "skipped: patch names no file"
	}
	tmp, err := os.MkdirTemp("", "scalint-patch-")
	if err != nil {
		return nil, "skipped: no scratch directory"
	}
	defer os.RemoveAll(tmp)
	for _, f := range files {
		src, err := os.ReadFile(filepath.Join(repoDir, f))
		if err != nil {
			continue // a file the patch creates
		}
		dst := filepath.Join(tmp, f)
		os.MkdirAll(filepath.Dir(dst), 0o755)
		os.WriteFile(dst, src, 0o644)
	}
	cmd := exec.Command("patch", "-p1", "-s", "-f", "--no-backup-if-mismatch", "-d", tmp, "-i", diff)
	if out, err := cmd.CombinedOutput(); err != nil {
		return nil, "skipped: patch does not apply to the current tree: " + short(strings.TrimSpace(string(out)), 120)
	}
	ov := map[string][]byte{}
	for _, f := range files {
		nb, err := os.ReadFile(filepath.Join(tmp, f))
		if err != nil {
			continue // deleted by the patch: cannot be expressed as an overlay
		}
		if strings.HasSuffix(f, "_test.go") {
			continue
		}
		ov[filepath.Join(repoDir, f)] = nb
	}
	if len(ov) == 0 {
		return nil, "skipped: patch leaves nothing to overlay"
	}
	return ov, ""
}

// storedControls: the seeded defects and neutral refactorings stored under /verif for this property.
func storedControls(pd *PropDef) (seeds, neutral []Mutant) {
	if ds, err := os.ReadDir(filepath.Join(verifDir, "seeded")); err == nil {
		for _, d := range ds {
			if !strings.HasPrefix(d.Name(), pd.ID+"-") {
				continue
			}
			if _, err := os.Stat(filepath.Join(verifDir, "seeded", d.Name(), "patch.diff")); err != nil {
				continue
			}
			seeds = append(seeds, Mutant{Name: "seed:" + d.Name(), Patch: filepath.Join("seeded", d.Name(), "patch.diff"), Documented: documentedMisses[d.Name()]})
		}
	}
	if ds, err := os.ReadDir(filepath.Join(verifDir, "neutral")); err == nil {
		for _, d := range ds {
			dir := filepath.Join(verifDir, "neutral", d.Name())
			if _, err := os.Stat(filepath.Join(dir, "patch.diff")); err != nil {
				continue
			}
			// registered for the property it was written for and for every property it alarmed when it arrived
			mine := strings.HasPrefix(d.Name(), pd.ID+"-")
			if b, err := os.ReadFile(filepath.Join(dir, "check_asis.json")); err == nil && strings.Contains(string(b), "\"property\": \""+pd.ID+"\"") {
				mine = true
			}
			if mine {
				neutral = append(neutral, Mutant{Name: "neutral:" + d.Name(), Patch: filepath.Join("neutral", d.Name(), "patch.diff"), Documented: documentedNeutral[d.Name()]})
			}
		}
	}
	return seeds, neutral
}

// documentedNeutral: behaviour-preserving refactorings on which a rule still reports (DESIGN.md §6a):
// limits of the approach, kept in the corpus and in the evidence.
var documentedNeutral = map[string]string{
	"C03-n5":  "a known predicate helper named in a frozen row was inlined by hand",
	"C12-n6":  "a block was extracted into a helper of another package (the normalisation is per package)",
	"C13-n6":  "a pre-sized slice filled by a counter over a map range (needs: a map range runs len(m) times)",
	"C03-n8":  "`_, seen := m[k]` became `m[k]` on a map[string]bool that only stores true: equal by a data invariant, not by shape",
	"C07-n8":  "the audited `a[ai:]` became `s[i:]` in a helper that is inlined: its loop-carried index is defined in another shape, so the audit's canonical name does not match, and the invariant itself (increments inside a range loop over the slice) is beyond the prover",
	"C07-n23": "as C07-n8: the run is cut out by a new helper that keeps the rune loop (`for _, c := range s[i:] { …; i++ }; return s[start:i]`): the audited `a[ai:]` reappears as `s[start:]` with another definition shape, and the invariant itself (one increment per rune of the remaining string) is beyond the prover",
	"C07-n9":  "`rest := a[len(b):]; rest[0]`: needs len(rest) = len(a) - len(b), which is not a difference constraint",
	"C18-n9":  "Clone+SortFunc became slices.SortedFunc(slices.Values(…)): a library idiom the sort/search anchors do not know",
	"C05-n14": "a nil test made redundant by an earlier successful type assertion was removed, so the traced package's URL is no longer a phi in a frozen row: equal by a value invariant, not by shape",
	"C16-n26": "the pending counter is raised in bulk (`toProcess := len(vulns)`, `toProcess += len(newlyAdded)`) before a range loop that spawns once per element: pairing a count with the number of iterations is an arithmetic argument, not a shape the spawn/increment pairing rule knows",
	"C19-n15": "the three validation loops became three calls of a helper with a type parameter of its own: such helpers are not inlined",
}

// documentedMisses: seeded defects the static rules do not detect, with the reason (DESIGN.md §7).
var documentedMisses = map[string]string{
	"C07-A": "value-level: a wrong comparison result for particular version strings; no structural rule decides it",
	"C07-D": "value-level: a wrong comparison result for particular version strings; no structural rule decides it",
	"C07-F": "value-level: a wrong comparison result for particular version strings; no structural rule decides it",
	"C07-I": "value-level: Maven's leading-zero normalisation moved from sub-tokens to raw tokens (rc01 vs rc1); no structural rule decides it",
	"C07-K": "value-level: PEP 440 local-version segments padded with \"0\" instead of 'more segments is greater'; no structural rule decides it",
	"C02-K": "resource use: errors chained one by one (quadratic memory in the number of bad tuples); no structural clause of C02 bounds allocation",
	"C13-L": "a depth counter that is not rebalanced after DecodeElement consumed the end tag: a value-level invariant of the XML token stream",
	"C03-M": "value-level: the package name derived from a package-lock.json key loses its @scope for local packages outside node_modules; no structural rule decides which characters of the key make up the name",
	"C02-F": "the panic is raised inside a third-party decoder on a nil argument its contract does not document",
	"C02-G": "a hang: a deferred wait for a goroutine that blocks on an unbuffered pipe nobody reads any more (liveness, no structural clause decides it)",
}

// runMutant: exit 0 fired, 3 missed, 4 skipped, 5 mutant does not compile.
func runMutant(pd *PropDef, name string) int {
	ctl, neu := allControls(pd)
	for _, m := range neu {
		if m.Name != name {
			continue
		}
		ov, skip := mutantOverlay(m)
		if ov == nil {
			fmt.Println(skip)
			return 4
		}
		r := NewReport(pd.ID, "quick")
		r.quiet = true
		analyse(pd, r, "quick", ov)
		r.checkFloors()
		for _, o := range r.obls {
			if o.Rule == "load" {
				fmt.Println("variant does not type-check: " + short(o.Detail, 300))
				return 5
			}
		}
		known, _, _ := loadKnown(filepath.Join(verifDir, "known_findings.txt"))
		var alarms []string
		for _, o := range r.obls {
			if o.Verdict < Violation {
				continue
			}
			isKnown := false
			for _, k := range known {
				if k.prop == pd.ID && k.rule == o.Rule && k.site == o.Site {
					isKnown = true
				}
			}
			if !isKnown {
				alarms = append(alarms, "["+o.Rule+"] "+o.Site+": "+short(o.Detail, 160))
			}
		}
		if len(alarms) > 0 {
			if m.Documented != "" {
				fmt.Printf("reports on a behaviour-preserving variant — documented limit: %s\n", m.Documented)
				return 7
			}
			fmt.Printf("FALSE-ALARM on a behaviour-preserving variant: %v\n", alarms)
			return 3
		}
		fmt.Println("quiet")
		return 0
	}
	for _, m := range ctl {
		if m.Name != name {
			continue
		}
		ov, skip := mutantOverlay(m)
		if ov == nil {
			fmt.Println(skip)
			return 4
		}
		r := NewReport(pd.ID, "quick")
		r.quiet = true
		analyse(pd, r, "quick", ov)
		r.checkFloors()
		for _, o := range r.obls {
			if o.Rule == "load" {
				fmt.Println("mutant does not type-check: " + short(o.Detail, 300))
				return 5
			}
		}
		for _, o := range r.obls {
			if m.Patch != "" && o.Verdict >= Violation && o.Rule != "load" && !isKnownObl(pd.ID, o.Rule, o.Site) {
				// a stored seeded defect: any violation of the property counts
				fmt.Printf("fired: [%s] %s: %s\n", o.Rule, o.Site, short(o.Detail, 200))
				return 0
			}
			if o.Verdict >= Violation && o.Rule == m.Rule && strings.Contains(o.Site, m.Site) {
				fmt.Printf("fired: [%s] %s: %s\n", o.Rule, o.Site, short(o.Detail, 200))
				return 0
			}
		}
		var other []string
		for _, o := range r.obls {
			if o.Verdict >= Violation {
				other = append(other, o.Rule+"@"+o.Site)
			}
		}
		if m.Documented != "" {
			fmt.Printf("not detected — documented limit: %s\n", m.Documented)
			return 6
		}
		fmt.Printf("MISSED (other reports: %v)\n", other)
		return 3
	}
	fmt.Println("no such control")
	return 4
}

func isKnownObl(prop, rule, site string) bool {
	known, _, _ := loadKnown(filepath.Join(verifDir, "known_findings.txt"))
	for _, k := range known {
		if k.prop == prop && k.rule == rule && k.site == site {
			return true
		}
	}
	return false
}

// allControls: the property's own overlay controls plus the stored seeded defects, and its neutral
// variants plus the stored behaviour-preserving refactorings.
func allControls(pd *PropDef) (controls, neutral []Mutant) {
	seeds, stored := storedControls(pd)
	controls = append(append([]Mutant{}, pd.Controls...), seeds...)
	neutral = append(append([]Mutant{}, pd.Neutral...), stored...)
	return controls, neutral
}

func runControls(pd *PropDef, r *Report) {
	exe, err := os.Executable()
	if err != nil {
		r.Note("controls not run: %v", err)
		return
	}
	ctl, neu := allControls(pd)
	all := append(append([]Mutant{}, ctl...), neu...)
	res := make([]controlResult, len(all))
	sem := make(chan struct{}, 4)
	var wg sync.WaitGroup
	for i, m := range all {
		wg.Add(1)
		go func(i int, m Mutant) {
			defer wg.Done()
			sem <- struct{}{}
			defer func() { <-sem }()
			cmd := exec.Command(exe, "-prop", pd.ID, "-mutant", m.Name, "-repo", repoDir, "-verif", verifDir)
			out, err := cmd.CombinedOutput()
			code := 0
			if ee, ok := err.(*exec.ExitError); ok {
				code = ee.ExitCode()
			} else if err != nil {
				code = -1
			}
			cr := controlResult{Name: m.Name, Kind: "mutant", Detail: short(strings.TrimSpace(string(out)), 240)}
			neutral := i >= len(ctl)
			if strings.HasPrefix(m.Name, "seed:") {
				cr.Kind = "seeded-defect"
			}
			if neutral {
				cr.Kind = "neutral-variant"
			}
			switch code {
			case 0:
				cr.Result = "fired"
				if neutral {
					cr.Result = "quiet"
				}
			case 4, 5:
				cr.Result = "skipped"
			case 6:
				cr.Result = "documented-miss"
			case 7:
				cr.Result = "documented-false-alarm"
			default:
				cr.Result = "MISSED"
				if neutral {
					cr.Result = "FALSE-ALARM"
				}
			}
			res[i] = cr
		}(i, m)
	}
	wg.Wait()
	fired, missed, skipped, quiet, falseAlarms, documented, documentedFA := 0, 0, 0, 0, 0, 0, 0
	for _, c := range res {
		r.controls = append(r.controls, c)
		switch c.Result {
		case "quiet":
			quiet++
		case "FALSE-ALARM":
			falseAlarms++
			fmt.Printf("CONTROL-FALSE-ALARM: %s %s: %s\n", pd.ID, c.Name, c.Detail)
		case "documented-miss":
			documented++
		case "documented-false-alarm":
			documentedFA++
		case "fired":
			fired++
		case "MISSED":
			missed++
			fmt.Printf("CONTROL-MISSED: %s %s (the rule did not report a seeded break of %s; rule may be ineffective on this tree)\n", pd.ID, c.Name, c.Name)
		default:
			skipped++
		}
	}
	r.Count("controls_fired", fired)
	r.Count("controls_missed", missed)
	r.Count("controls_skipped", skipped)
	r.Count("controls_documented_miss", documented)
	r.Count("neutral_variants_documented_limit", documentedFA)
	r.Count("neutral_variants_quiet", quiet)
	r.Count("neutral_variants_false_alarm", falseAlarms)
}

func doReplay(path string) int {
	b, err := os.ReadFile(path)
	if err != nil {
		fmt.Println(err)
		return 2
	}
	var m map[string]string
	if err := jsonUnmarshal(b, &m); err != nil {
		fmt.Println(err)
		return 2
	}
	pd := props[m["property"]]
	if pd == nil {
		fmt.Println("unknown property in replay file")
		return 2
	}
	r := NewReport(pd.ID, "quick")
	r.quiet = true
	analyse(pd, r, "quick", nil)
	for _, o := range r.obls {
		if o.Rule == m["rule"] && o.Site == m["site"] {
			fmt.Printf("%s: [%s/%s] %s: %s: %s\n", o.Pos, pd.ID, o.Rule, o.Site, o.Verdict, o.Detail)
			if o.Verdict >= Violation {
				fmt.Printf("VIOLATION property=%s replay=%s\n", pd.ID, path)
				return 1
			}
			return 0
		}
	}
	fmt.Printf("obligation %s %s no longer exists on this tree\n", m["rule"], m["site"])
	return 0
}
