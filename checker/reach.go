package main

import (
	"go/types"
	"sort"
	"strings"

	"golang.org/x/tools/go/ssa"
)

// reachableFrom computes the first-party functions reachable from roots through static calls,
// closures / function values mentioned in a reachable function, and interface invokes resolved by
// class hierarchy over the first-party concrete types of the program (CHA): an over-approximation.
func (p *Prog) reachableFrom(roots []*ssa.Function) []*ssa.Function {
	seen := map[*ssa.Function]bool{}
	var work []*ssa.Function
	add := func(f *ssa.Function) {
		if f == nil || seen[f] || f.Blocks == nil || !p.firstParty(f) {
			return
		}
		seen[f] = true
		work = append(work, f)
	}
	for _, r := range roots {
		add(r)
	}
	impls := p.methodImpls()
	for len(work) > 0 {
		fn := work[len(work)-1]
		work = work[:len(work)-1]
		for _, a := range fn.AnonFuncs {
			add(a)
		}
		forEachInstr(fn, func(_ *ssa.BasicBlock, _ int, in ssa.Instruction) {
			var ops [16]*ssa.Value
			for _, op := range in.Operands(ops[:0]) {
				if op == nil || *op == nil {
					continue
				}
				if f, ok := (*op).(*ssa.Function); ok {
					if f.Synthetic != "" {
						if u := unwrapSynthetic(f); u != nil {
							add(u)
						}
					}
					add(f)
				}
			}
			if c := callOf(in); c != nil && c.IsInvoke() {
				for _, f := range impls[c.Method.Name()] {
					// receiver type must implement the interface
					if recv := f.Signature.Recv(); recv != nil {
						it, _ := c.Value.Type().Underlying().(*types.Interface)
						if it != nil && (types.Implements(recv.Type(), it) || types.Implements(types.NewPointer(recv.Type()), it)) {
							add(f)
						}
					}
				}
			}
		})
	}
	var out []*ssa.Function
	for f := range seen {
		if f.Synthetic == "" || strings.HasPrefix(f.Synthetic, "range-over-func") {
			out = append(out, f)
		}
	}
	sort.Slice(out, func(i, j int) bool { return fnKey(out[i]) < fnKey(out[j]) })
	return out
}

// methodImpls indexes first-party methods by name.
func (p *Prog) methodImpls() map[string][]*ssa.Function {
	if p.impls != nil {
		return p.impls
	}
	m := map[string][]*ssa.Function{}
	for _, fn := range p.allFns {
		if fn.Signature.Recv() != nil && fn.Parent() == nil {
			m[fn.Name()] = append(m[fn.Name()], fn)
		}
	}
	p.impls = m
	return m
}
